#!/bin/bash
# run every property check through ./check (verdict store on) and print the summary lines
tier=${1:-quick}
for p in C01 C02 C03 C04 C05 C06 C07 C08 C09 C10 C11 C12 C13 C14 C15 C16 C17 C18 C19; do
  VERIF_EVIDENCE_DIR=${VERIF_EVIDENCE_DIR:-/verif/evidence} /verif/check $p $tier 2>&1 
done
