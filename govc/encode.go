package main

import (
	"fmt"
	"go/constant"
	"go/token"
	"go/types"
	"sort"
	"strings"
	"sync"

	"golang.org/x/tools/go/ssa"
)

// Val is a symbolic Go value.
type Val struct {
	T string // SMT term
	S string // SMT sort
}

type addrKind int

const (
	akCell      addrKind = iota // local cell (possibly a struct field path inside it)
	akField                     // leaf field of a heap object: Comp[Ref]
	akBox                       // heap-allocated scalar: Comp[Ref]
	akObj                       // a heap struct object as a whole (pointer to struct)
	akElem                      // element of a backing array: Arr.S[arr][idx] (+ path)
	akGlobal                    // package-level variable: component G.x
	akBytesCell                 // slice over a local byte array cell (value semantics)
	akDyn                       // pointer to a leaf of statically unknown provenance
	akByteAt                    // element of a byte slice modelled as a byte sequence (read only; the value read is unconstrained)
)

// Addr is a generation-time description of an address.
type Addr struct {
	Kind    addrKind
	Cell    *ssa.Alloc
	Path    []int
	Ref     string
	Comp    string
	Typ     types.Type // pointee type
	Arr     string
	Idx     string
	ArrComp string
	// provenance of the backing array for element addresses: the node (object) and field
	// component the slice header was loaded from, if known.
	ProvRef  string
	ProvComp string
	PtrTerm  string // for akDyn: the pointer value
	elemT    types.Type
}

type Prov struct {
	Ref  string
	Comp string
}

// State is the symbolic state at a program point.
type State struct {
	comps map[string]string
	cells map[*ssa.Alloc]Val
	at    string
}

func (s *State) clone() *State {
	n := &State{comps: make(map[string]string, len(s.comps)), cells: make(map[*ssa.Alloc]Val, len(s.cells)), at: s.at}
	for k, v := range s.comps {
		n.comps[k] = v
	}
	for k, v := range s.cells {
		n.cells[k] = v
	}
	return n
}

// Obligation is one proof obligation.
type Obligation struct {
	Func      string
	Kind      string
	Label     string
	Name      string
	Tags      []string
	Pos       int    // byte offset into the function script: everything before is the prefix
	Block     int    // index of the basic block the obligation sits in (-1: before the body)
	At        string // Bool term: control reaches the obligation point
	Goal      string // Bool term to prove
	Cover     bool   // must be satisfiable (vacuity guard) instead of valid
	LongCover bool
	Src       string
	Result    *SolveResult
	script    *strings.Builder
}

// FnEnc encodes one function.
type FnEnc struct {
	e              *Eng
	fn             *ssa.Function
	name           string
	c              *Contract
	out            strings.Builder
	nsym           int
	vals           map[ssa.Value]Val
	addrs          map[ssa.Value]*Addr
	provs          map[ssa.Value]Prov
	clos           map[ssa.Value]*ssa.MakeClosure
	obls           []*Obligation
	st             *State
	entry          *State
	exit           map[*ssa.BasicBlock]*State
	edgeCond       map[[2]int]string
	params         map[string]Val // entry values of parameters by name
	cellName       map[*ssa.Alloc]string
	loops          map[*ssa.BasicBlock]*loopInfo
	loopOrd        []*ssa.BasicBlock
	kindN          map[string]int
	failed         error
	curBlock       *ssa.BasicBlock
	curInstr       ssa.Instruction
	want           func(tags []string) bool
	assumed        []string
	selfRef        string
	callN          map[string]int
	trustedUsed    map[string]bool
	tuples         map[ssa.Value][]Val
	tupleAddrs     map[ssa.Value][]*Addr
	arrLens        map[string]int64
	cellName2      map[*ssa.Alloc]string
	byteOrigin     map[ssa.Value]*Addr
	smallArr       map[ssa.Value]smallArrInfo
	noGuard        bool
	cellClos       map[*ssa.Alloc]*ssa.MakeClosure
	cellAddr       map[*ssa.Alloc]*Addr
	cellProv       map[*ssa.Alloc]Prov
	cellFnKey      map[*ssa.Alloc]string
	fnKeys         map[ssa.Value]string
	storeCount     map[*ssa.Alloc]int
	paramVals      map[string]ssa.Value
	defers         []*ssa.Defer
	heapCache      map[string]string
	opaqueInt      bool
	unresolvedNote []string
	unmodelled     map[string]bool
	relevant       map[string]bool
	waived         []string
	theoryEnd      int
	segs           []seg // script segments by emitting block (for slicing a query to the blocks that reach it)
	anc            map[int]map[int]bool
	ancMu          sync.Mutex
	theoryStart    int
	lastFreshMods  map[string]bool
	lastFullMods   map[string]bool
	lastTargets    map[string][]ssa.Value
}

type loopInfo struct {
	head   *ssa.BasicBlock
	blocks map[*ssa.BasicBlock]bool
	ord    int
	backs  []*ssa.BasicBlock
	hstate *State
}

func (f *FnEnc) emit(format string, args ...interface{}) {
	fmt.Fprintf(&f.out, format, args...)
	f.out.WriteByte('\n')
}

func (f *FnEnc) sym(prefix string) string {
	f.nsym++
	return fmt.Sprintf("%s!%d", sanitize(prefix), f.nsym)
}

// def introduces a named abbreviation for term.
func (f *FnEnc) def(prefix, srt, term string) string {
	if isAtomTerm(term) {
		return term
	}
	n := f.sym(prefix)
	if strings.HasPrefix(srt, "(Array") || (srt == "Int" && f.opaqueInt) || (strings.HasPrefix(term, "(ite ") && srt != "Bool") {
		// arrays, and integers (which end up as indices), are used in quantifier patterns: keep
		// them uninterpreted constants so that the solver's arithmetic normalisation does not
		// change the shape of index terms
		f.emit("(declare-fun %s () %s)", n, srt)
		if srt == "Int" {
			// two inequalities instead of an equation: the solver's equation-solving preprocessor
			// would otherwise substitute the sum back into index terms
			f.emit("(assert (and (<= %s %s) (>= %s %s)))", n, term, n, term)
		} else {
			f.emit("(assert (= %s %s))", n, term)
		}
		return n
	}
	f.emit("(define-fun %s () %s %s)", n, srt, term)
	return n
}

func isAtomTerm(t string) bool {
	return !strings.ContainsAny(t, " (")
}

// fresh declares an unconstrained constant.
func (f *FnEnc) fresh(prefix, srt string) string {
	n := f.sym(prefix)
	f.emit("(declare-fun %s () %s)", n, srt)
	return n
}

func (f *FnEnc) assume(term string) {
	if term == "true" {
		return
	}
	f.emit("(assert (=> %s %s))", f.st.at, term)
}

func (f *FnEnc) fail(format string, args ...interface{}) {
	if f.failed == nil {
		pos := ""
		if f.curInstr != nil {
			pos = f.e.fset.Position(f.curInstr.Pos()).String()
		}
		f.failed = fmt.Errorf("%s: %s [%s]", f.name, fmt.Sprintf(format, args...), pos)
	}
}

func (f *FnEnc) oblige(kind, label string, tags []string, goal string, src string) {
	f.kindN[kind+"/"+label]++
	n := f.kindN[kind+"/"+label]
	name := fmt.Sprintf("%s/%s/%s", f.name, kind, label)
	if n > 1 || kind == "safe" || kind == "guard" || kind == "pre" {
		name = fmt.Sprintf("%s#%d", name, n)
	}
	if goal == "true" {
		return
	}
	if f.c != nil {
		f.kindN["w/"+kind+"/"+label]++
		wname := fmt.Sprintf("%s/%s#%d", kind, label, f.kindN["w/"+kind+"/"+label])
		for _, w := range f.c.Waive {
			if w[0] == wname || w[0] == kind+"/"+label {
				f.waived = append(f.waived, fmt.Sprintf("%s/%s: %s", f.name, wname, w[1]))
				f.assume(goal)
				return
			}
		}
	}
	if kind == "safe" && f.c != nil && f.c.SafeUnder != nil {
		goal = fmt.Sprintf("(=> %s %s)", f.evalClause(f.c.SafeUnder, f.baseEnv(f.st)), goal)
	}
	if !f.wantTags(tags) {
		// safety conditions hold on every execution that continues past this point (the runtime
		// panics otherwise); callee preconditions are checked by the runs of their own properties.
		if kind == "safe" || kind == "pre" {
			f.assume(goal)
		}
		return
	}
	ob := &Obligation{Func: f.name, Kind: kind, Label: label, Name: name, Tags: tags, Pos: f.out.Len(), Block: f.curBlockIdx(), At: f.st.at, Goal: goal, Src: src}
	if ob.Src == "" && f.curInstr != nil {
		p := f.e.fset.Position(f.curInstr.Pos())
		if p.IsValid() {
			ob.Src = fmt.Sprintf("%s:%d", shortFile(p.Filename), p.Line)
		}
	}
	f.obls = append(f.obls, ob)
	// later instructions may assume it
	f.assume(goal)
}

func shortFile(p string) string {
	i := strings.LastIndex(p, "/")
	return p[i+1:]
}

func (f *FnEnc) autoTags() []string {
	if f.c != nil {
		return f.c.Tags
	}
	return nil
}

// ---------------------------------------------------------------------------------------------
// heap access helpers

func (f *FnEnc) comp(name string) string {
	if c, ok := f.e.consts[name]; ok {
		return c
	}
	v, ok := f.st.comps[name]
	if !ok {
		f.fail("unknown heap component %s", name)
		return "UNKNOWN"
	}
	return v
}

func (f *FnEnc) setComp(name, term, srt string) {
	f.st.comps[name] = f.def(name, srt, term)
}

func (f *FnEnc) compSort(name string) string {
	c, ok := f.e.reg.comps[name]
	if !ok {
		f.fail("unknown heap component %s", name)
		return "Int"
	}
	return c.Sort
}

// heapTerm materialises the Heap value of state st.
func (f *FnEnc) heapTerm(st *State) string {
	var kb strings.Builder
	for _, n := range f.e.reg.compOrd {
		kb.WriteString(st.comps[n])
		kb.WriteByte(' ')
	}
	key := kb.String()
	if f.heapCache == nil {
		f.heapCache = map[string]string{}
	}
	if h, ok := f.heapCache[key]; ok {
		return h
	}
	h := f.heapTerm0(st)
	f.heapCache[key] = h
	return h
}

func (f *FnEnc) heapTerm0(st *State) string {
	var b strings.Builder
	b.WriteString("(mkHeap")
	for _, n := range f.e.reg.compOrd {
		b.WriteByte(' ')
		if c, ok := f.e.consts[n]; ok {
			b.WriteString(c)
		} else {
			b.WriteString(st.comps[n])
		}
	}
	b.WriteString(")")
	return f.def("H", "Heap", b.String())
}

func (f *FnEnc) readField(comp, ref string) string {
	if c, ok := f.e.consts[comp]; ok {
		return fmt.Sprintf("(select %s %s)", c, ref)
	}
	return fmt.Sprintf("(select %s %s)", f.comp(comp), ref)
}

func (f *FnEnc) writeField(comp, ref, v string) {
	if _, ok := f.e.consts[comp]; ok {
		return
	}
	f.setComp(comp, fmt.Sprintf("(store %s %s %s)", f.comp(comp), ref, v), f.compSort(comp))
}

func (f *FnEnc) readElem(arrComp, arr, idx string) string {
	return fmt.Sprintf("(select (select %s %s) %s)", f.comp(arrComp), arr, idx)
}

func (f *FnEnc) writeElem(arrComp, arr, idx, v string) {
	a := f.comp(arrComp)
	f.setComp(arrComp, fmt.Sprintf("(store %s %s (store (select %s %s) %s %s))", a, arr, a, arr, idx, v), f.compSort(arrComp))
}

// alloc returns a fresh reference (watermark bump).
func (f *FnEnc) alloc() string {
	w := f.comp("W")
	r := f.def("ref", "Int", fmt.Sprintf("(+ %s 1)", w))
	f.st.comps["W"] = r
	return r
}

// loadStruct builds the datatype value of the struct object at ref.
func (f *FnEnc) loadStruct(t types.Type, ref string) string {
	si := f.e.reg.structInfo(t)
	if len(si.Fields) == 0 {
		return "mk_" + si.SortName
	}
	parts := []string{"(mk_" + si.SortName}
	for i, fi := range si.Fields {
		if fi.IsStruct {
			parts = append(parts, f.loadStruct(fi.Type, f.innerRef(ref, i, fi)))
		} else {
			parts = append(parts, f.readField(fi.Comp, ref))
		}
	}
	return strings.Join(parts, " ") + ")"
}

func (f *FnEnc) innerRef(ref string, idx int, fi FieldInfo) string {
	if idx == 0 {
		return ref
	}
	return fmt.Sprintf("(inner %s %d)", ref, fi.Fid)
}

// storeStruct writes datatype value v into the struct object at ref.
func (f *FnEnc) storeStruct(t types.Type, ref, v string) {
	si := f.e.reg.structInfo(t)
	for i, fi := range si.Fields {
		fv := fmt.Sprintf("(%s.%s %s)", si.SortName, fi.Name, v)
		if fi.IsStruct {
			f.storeStruct(fi.Type, f.innerRef(ref, i, fi), fv)
		} else {
			f.writeField(fi.Comp, ref, fv)
		}
	}
}

func (f *FnEnc) zeroStruct(t types.Type, ref string) {
	si := f.e.reg.structInfo(t)
	for i, fi := range si.Fields {
		if fi.IsStruct {
			f.zeroStruct(fi.Type, f.innerRef(ref, i, fi))
		} else {
			f.writeField(fi.Comp, ref, f.e.reg.zeroOfSort(fi.Sort))
		}
	}
}

// getPath projects field path out of struct value v of type t.
func (f *FnEnc) getPath(t types.Type, v string, path []int) (string, types.Type) {
	for _, k := range path {
		si := f.e.reg.structInfo(t)
		fi := si.Fields[k]
		v = fmt.Sprintf("(%s.%s %s)", si.SortName, fi.Name, v)
		t = fi.Type
	}
	return v, t
}

// setPath returns struct value v (of type t) with the field at path replaced by nv.
func (f *FnEnc) setPath(t types.Type, v string, path []int, nv string) string {
	if len(path) == 0 {
		return nv
	}
	si := f.e.reg.structInfo(t)
	parts := []string{"(mk_" + si.SortName}
	for i, fi := range si.Fields {
		fv := fmt.Sprintf("(%s.%s %s)", si.SortName, fi.Name, v)
		if i == path[0] {
			parts = append(parts, f.setPath(fi.Type, fv, path[1:], nv))
		} else {
			parts = append(parts, fv)
		}
	}
	return strings.Join(parts, " ") + ")"
}

// ---------------------------------------------------------------------------------------------
// values

func (f *FnEnc) constVal(c *ssa.Const) Val {
	t := c.Type()
	s := f.e.reg.sortOf(t)
	if c.Value == nil {
		// zero value / nil
		if f.e.reg.isStruct(t) {
			return Val{f.e.reg.zeroOf(t), s}
		}
		return Val{f.e.reg.zeroOfSort(s), s}
	}
	switch c.Value.Kind() {
	case constant.Bool:
		if constant.BoolVal(c.Value) {
			return Val{"true", "Bool"}
		}
		return Val{"false", "Bool"}
	case constant.Int:
		str := c.Value.ExactString()
		if strings.HasPrefix(str, "-") {
			return Val{"(- " + str[1:] + ")", "Int"}
		}
		return Val{str, "Int"}
	case constant.String:
		return Val{f.e.strLit(constant.StringVal(c.Value)), "Bytes"}
	}
	f.fail("unsupported constant %v", c)
	return Val{"0", s}
}

func (f *FnEnc) val(v ssa.Value) Val {
	switch x := v.(type) {
	case *ssa.Const:
		return f.constVal(x)
	case *ssa.Function:
		return Val{fmt.Sprintf("%d", f.e.fnId(x.String())), "Int"}
	case *ssa.Global:
		// address of a global: only meaningful through load/store
		return Val{"0", "Int"}
	case *ssa.Builtin:
		return Val{"0", "Int"}
	}
	if r, ok := f.vals[v]; ok {
		return r
	}
	if a, ok := f.addrs[v]; ok {
		// pointer value needed as a first-class value
		return Val{f.addrAsValue(a), "Int"}
	}
	f.fail("value %s (%T) has no encoding", v.Name(), v)
	return Val{"0", f.e.reg.sortOf(v.Type())}
}

// addrAsValue turns a static address into a pointer value.
func (f *FnEnc) addrAsValue(a *Addr) string {
	switch a.Kind {
	case akObj, akBox:
		return a.Ref
	case akField:
		fid, ok := f.e.reg.fidByComp[a.Comp]
		if !ok {
			f.fail("no field id for %s", a.Comp)
		}
		return fmt.Sprintf("(inner %s %d)", a.Ref, fid)
	case akElem:
		if len(a.Path) == 0 {
			return fmt.Sprintf("(eptr %s %s)", a.Arr, a.Idx)
		}
	case akDyn:
		return a.PtrTerm
	}
	f.fail("address of kind %d cannot be used as a first-class pointer value", a.Kind)
	return "0"
}

// typeFacts returns range / well-formedness facts about value v of Go type t.
func (f *FnEnc) typeFacts(t types.Type, v string) string {
	switch u := t.Underlying().(type) {
	case *types.Basic:
		if u.Info()&types.IsInteger != 0 {
			lo, hi := intRange(u)
			return fmt.Sprintf("(and (<= %s %s) (<= %s %s))", lo, v, v, hi)
		}
		if u.Info()&types.IsString != 0 {
			return fmt.Sprintf("(<= (blen %s) 281474976710656)", v)
		}
	case *types.Slice:
		if isByte(u.Elem()) {
			return fmt.Sprintf("(and (=> (bs.nil %s) (= (bs.val %s) eps)) (<= (blen (bs.val %s)) 281474976710656))", v, v, v)
		}
		return fmt.Sprintf("(and (wfSlice %s) (<= (sl.arr %s) %s))", v, v, f.comp("W"))
	case *types.Pointer:
		return fmt.Sprintf("(<= %s %s)", v, f.comp("W"))
	case *types.Interface:
		return fmt.Sprintf("(and (>= (a.tid %s) 0) (=> (= (a.tid %s) 0) (= (a.val %s) 0)) (=> (isPtrTid (a.tid %s)) (<= (a.val %s) %s)))", v, v, v, v, v, f.comp("W"))
	case *types.Struct:
		if f.e.reg.isOpaqueStruct(t) {
			return "true"
		}
		si := f.e.reg.structInfo(t)
		var parts []string
		for _, fi := range si.Fields {
			p := f.typeFacts(fi.Type, fmt.Sprintf("(%s.%s %s)", si.SortName, fi.Name, v))
			if p != "true" {
				parts = append(parts, p)
			}
		}
		if len(parts) == 0 {
			return "true"
		}
		return "(and " + strings.Join(parts, " ") + ")"
	case *types.Map, *types.Chan:
		return fmt.Sprintf("(and (>= %s 0) (<= %s %s))", v, v, f.comp("W"))
	}
	return "true"
}

func intRange(b *types.Basic) (string, string) {
	switch b.Kind() {
	case types.Int8:
		return "(- 128)", "127"
	case types.Int16:
		return "(- 32768)", "32767"
	case types.Int32:
		return "(- 2147483648)", "2147483647"
	case types.Int, types.Int64, types.UntypedInt:
		return "(- 9223372036854775808)", "9223372036854775807"
	case types.Uint8:
		return "0", "255"
	case types.Uint16:
		return "0", "65535"
	case types.Uint32:
		return "0", "4294967295"
	case types.Uint, types.Uint64, types.Uintptr:
		return "0", "18446744073709551615"
	}
	return "(- 9223372036854775808)", "9223372036854775807"
}

func intModulus(b *types.Basic) (mod string, signed bool, bits int) {
	switch b.Kind() {
	case types.Int8:
		return "256", true, 8
	case types.Int16:
		return "65536", true, 16
	case types.Int32:
		return "4294967296", true, 32
	case types.Int, types.Int64:
		return "18446744073709551616", true, 64
	case types.Uint8:
		return "256", false, 8
	case types.Uint16:
		return "65536", false, 16
	case types.Uint32:
		return "4294967296", false, 32
	case types.Uint, types.Uint64, types.Uintptr:
		return "18446744073709551616", false, 64
	}
	return "18446744073709551616", true, 64
}

// wrap applies the machine-integer wrap-around of type b to mathematical term t.
// 64-bit additions and multiplications are left mathematical (stated assumption); everything
// narrower, and unsigned subtraction, is exact.
func wrapInt(b *types.Basic, t string, op token.Token) string {
	mod, signed, bits := intModulus(b)
	if bits == 64 {
		if !signed && (op == token.SUB) {
			return fmt.Sprintf("(mod %s %s)", t, mod)
		}
		return t
	}
	if !signed {
		return fmt.Sprintf("(mod %s %s)", t, mod)
	}
	half := map[int]string{8: "128", 16: "32768", 32: "2147483648"}[bits]
	return fmt.Sprintf("(- (mod (+ %s %s) %s) %s)", t, half, mod, half)
}

// ---------------------------------------------------------------------------------------------
// addresses

func (f *FnEnc) addrOf(v ssa.Value) *Addr {
	if a, ok := f.addrs[v]; ok {
		return a
	}
	switch x := v.(type) {
	case *ssa.Global:
		name := "G." + x.Name()
		if x.Pkg != f.e.pkg {
			name = "G." + x.Pkg.Pkg.Name() + "." + x.Name()
		}
		return &Addr{Kind: akGlobal, Comp: name, Typ: x.Type().(*types.Pointer).Elem()}
	}
	// a first-class pointer value: classify by pointee type
	pt, ok := v.Type().Underlying().(*types.Pointer)
	if !ok {
		f.fail("addrOf non-pointer %s", v.Name())
		return &Addr{Kind: akBox, Ref: "0", Comp: "Box.Int"}
	}
	pv := f.val(v).T
	return f.addrOfPtr(pt.Elem(), pv)
}

func (f *FnEnc) addrOfPtr(el types.Type, pv string) *Addr {
	if f.e.reg.isStruct(el) {
		if f.e.isElemPtrType(el) {
			return &Addr{Kind: akElem, Arr: fmt.Sprintf("(eptr.a %s)", pv), Idx: fmt.Sprintf("(eptr.i %s)", pv), ArrComp: f.e.reg.arrComp(el), Typ: el}
		}
		return &Addr{Kind: akObj, Ref: pv, Typ: el}
	}
	if arr, isA := el.Underlying().(*types.Array); isA && !isByte(arr.Elem()) {
		return &Addr{Kind: akObj, Ref: pv, Typ: el}
	}
	return &Addr{Kind: akDyn, PtrTerm: pv, Typ: el, Comp: "Box." + f.e.reg.sortOf(el)}
}

func (e *Eng) isElemPtrType(t types.Type) bool {
	if n, ok := t.(*types.Named); ok {
		return n.Obj().Name() == "pathEntry" && n.Obj().Pkg() == e.pkg.Pkg
	}
	return false
}

// dynCandidates lists the leaf-field components that a pointer to sort s may point into.
func (f *FnEnc) dynCandidates(el types.Type) []string {
	s := f.e.reg.sortOf(el)
	var out []string
	for _, n := range f.e.reg.compOrd {
		c := f.e.reg.comps[n]
		if c.Ghost || strings.HasPrefix(n, "Box.") || strings.HasPrefix(n, "Arr.") || strings.HasPrefix(n, "Map.") || strings.HasPrefix(n, "G.") || n == "W" {
			continue
		}
		if c.Sort == "(Array Int "+s+")" {
			if _, ok := f.e.reg.fidByComp[n]; ok {
				// only fields of the exact Go type
				out = append(out, n)
			}
		}
	}
	return out
}

func (f *FnEnc) nilCheck(ref string, what string) {
	if strings.HasPrefix(ref, "ref!") {
		return
	}
	f.oblige("safe", "nil", f.autoTags(), fmt.Sprintf("(not (= %s 0))", ref), "")
}

func (f *FnEnc) load(a *Addr) Val {
	s := f.e.reg.sortOf(a.Typ)
	switch a.Kind {
	case akCell:
		cv, ok := f.st.cells[a.Cell]
		ct := a.Cell.Type().(*types.Pointer).Elem()
		if !ok {
			cv = Val{f.e.reg.zeroOf(ct), f.e.reg.sortOf(ct)}
		}
		t, _ := f.getPath(ct, cv.T, a.Path)
		return Val{t, s}
	case akField, akBox:
		return Val{f.readField(a.Comp, a.Ref), s}
	case akObj:
		if f.e.reg.isStruct(a.Typ) {
			return Val{f.loadStruct(a.Typ, a.Ref), s}
		}
		if s == "Opaque" {
			return Val{f.fresh("opq", "Opaque"), s}
		}
		f.fail("load of whole array object")
		return Val{"0", s}
	case akElem:
		// element type may be a struct with a path
		et := a.elemType()
		t := f.readElem(a.ArrComp, a.Arr, a.Idx)
		t, _ = f.getPath(et, t, a.Path)
		return Val{t, s}
	case akGlobal:
		return Val{f.comp(a.Comp), s}
	case akDyn:
		t := fmt.Sprintf("(select %s %s)", f.comp(a.Comp), a.PtrTerm)
		for _, c := range f.dynCandidates(a.Typ) {
			t = fmt.Sprintf("(ite (and (< %s 0) (= (inner.k %s) %d)) (select %s (inner.p %s)) %s)", a.PtrTerm, a.PtrTerm, f.e.reg.fidByComp[c], f.comp(c), a.PtrTerm, t)
		}
		return Val{t, s}
	}
	if a.Kind == akByteAt {
		// byte sequences carry no element function: the byte read is any value in range (an
		// over-approximation: a function whose contract depends on the byte read stays unproved)
		b := f.fresh("byteat", "Int")
		f.assume(fmt.Sprintf("(and (<= 0 %s) (<= %s 255))", b, b))
		return Val{b, s}
	}
	f.fail("load: unsupported address kind %d", a.Kind)
	return Val{"0", s}
}

func (a *Addr) elemType() types.Type {
	// Typ is the type at the end of Path; the element type is recorded in Cell==nil, ElemT via Typ when Path empty
	if a.elemT != nil {
		return a.elemT
	}
	return a.Typ
}

func (f *FnEnc) store(a *Addr, v Val) {
	switch a.Kind {
	case akCell:
		ct := a.Cell.Type().(*types.Pointer).Elem()
		cs := f.e.reg.sortOf(ct)
		if len(a.Path) == 0 {
			f.st.cells[a.Cell] = Val{f.def(f.cellSym(a.Cell), cs, v.T), cs}
			return
		}
		cv, ok := f.st.cells[a.Cell]
		if !ok {
			cv = Val{f.e.reg.zeroOf(ct), cs}
		}
		nv := f.setPath(ct, cv.T, a.Path, v.T)
		f.st.cells[a.Cell] = Val{f.def(f.cellSym(a.Cell), cs, nv), cs}
	case akField:
		f.guardStore(a, v)
		f.writeField(a.Comp, a.Ref, v.T)
	case akBox:
		f.guardBoxStore(a, v)
		f.writeField(a.Comp, a.Ref, v.T)
	case akObj:
		if f.e.reg.isStruct(a.Typ) {
			f.guardStoreObj(a)
			f.storeStruct(a.Typ, a.Ref, f.def("sv", v.S, v.T))
			return
		}
		if v.S == "Opaque" {
			return
		}
		f.fail("store of whole array object")
	case akElem:
		f.guardElemStore(a)
		et := a.elemType()
		if len(a.Path) == 0 {
			f.writeElem(a.ArrComp, a.Arr, a.Idx, v.T)
			return
		}
		old := f.readElem(a.ArrComp, a.Arr, a.Idx)
		f.writeElem(a.ArrComp, a.Arr, a.Idx, f.setPath(et, old, a.Path, v.T))
	case akGlobal:
		f.setComp(a.Comp, v.T, f.compSort(a.Comp))
	case akDyn:
		p := a.PtrTerm
		for _, c := range f.dynCandidates(a.Typ) {
			cond := fmt.Sprintf("(and (< %s 0) (= (inner.k %s) %d))", p, p, f.e.reg.fidByComp[c])
			f.setComp(c, fmt.Sprintf("(ite %s (store %s (inner.p %s) %s) %s)", cond, f.comp(c), p, v.T, f.comp(c)), f.compSort(c))
		}
		f.setComp(a.Comp, fmt.Sprintf("(ite (> %s 0) (store %s %s %s) %s)", p, f.comp(a.Comp), p, v.T, f.comp(a.Comp)), f.compSort(a.Comp))
	default:
		f.fail("store: unsupported address kind %d", a.Kind)
	}
}

func (f *FnEnc) cellSym(c *ssa.Alloc) string {
	n := c.Comment
	if n == "" {
		n = "res"
	}
	return "c." + n
}

// ---------------------------------------------------------------------------------------------
// guards

func (f *FnEnc) guardEnv(ref string, comp string, newv string) map[string]string {
	env := f.baseEnv(f.st)
	env["r"] = ref
	env["comp"] = comp
	if newv != "" {
		env["newv"] = newv
	}
	return env
}

func (f *FnEnc) guardStore(a *Addr, v Val) {
	if f.noGuard {
		return
	}
	for _, g := range f.e.guards {
		if g.Elem || !g.Comps[a.Comp] || !g.appliesIn(f.name) {
			continue
		}
		tags := g.Tags
		if !f.wantTags(tags) {
			continue
		}
		env := f.guardEnv(a.Ref, a.Comp, v.T)
		if strings.HasPrefix(v.S, "Slice") || len(g.Funcs) > 0 {
			env["oldv"] = f.readField(a.Comp, a.Ref)
		}
		goal := f.evalClause(g.Expr, env)
		f.oblige("guard", g.Name+"."+a.Comp, tags, goal, "")
	}
}

// guardBoxStore: rules written for stores into boxes (captured variables, boxed locals) apply
// only where a rule names the function, so ordinary locals are never affected.
func (f *FnEnc) guardBoxStore(a *Addr, v Val) {
	if f.noGuard {
		return
	}
	for _, g := range f.e.guards {
		if g.Elem || !g.Comps[a.Comp] || len(g.Funcs) == 0 || !g.Funcs[f.name] || !f.wantTags(g.Tags) {
			continue
		}
		env := f.guardEnv(a.Ref, a.Comp, v.T)
		env["oldv"] = f.readField(a.Comp, a.Ref)
		f.oblige("guard", g.Name+"."+a.Comp, g.Tags, f.evalClause(g.Expr, env), "")
	}
}

func (f *FnEnc) guardStoreObj(a *Addr) {
	if f.noGuard {
		return
	}
	si := f.e.reg.structInfo(a.Typ)
	for _, g := range f.e.guards {
		if g.Elem {
			continue
		}
		hit := ""
		for _, fi := range si.Fields {
			if g.Comps[fi.Comp] {
				hit = fi.Comp
			}
		}
		if hit == "" || !f.wantTags(g.Tags) || !g.appliesIn(f.name) {
			continue
		}
		env := f.guardEnv(a.Ref, hit, "")
		if _, uses := exprAtoms(g.Expr)["newv"]; uses {
			continue
		}
		f.oblige("guard", g.Name+".obj", g.Tags, f.evalClause(g.Expr, env), "")
	}
}

func exprAtoms(e *SX) map[string]bool {
	m := map[string]bool{}
	e.atoms(m)
	return m
}

func (f *FnEnc) guardElemStore(a *Addr) {
	for _, g := range f.e.guards {
		if !g.Elem || !g.Comps[a.ArrComp] || !g.appliesIn(f.name) {
			continue
		}
		if !f.wantTags(g.Tags) {
			continue
		}
		env := f.baseEnv(f.st)
		env["arr"] = a.Arr
		if a.ProvRef != "" {
			env["r"] = a.ProvRef
			env["hasprov"] = "true"
		} else {
			env["r"] = "0"
			env["hasprov"] = "false"
		}
		f.oblige("guard", g.Name+".elem", g.Tags, f.evalClause(g.Expr, env), "")
	}
}

func (f *FnEnc) wantTags(tags []string) bool {
	if f.want == nil {
		return true
	}
	return f.want(tags)
}

// ---------------------------------------------------------------------------------------------
// clause evaluation

// baseEnv builds the substitution environment for contract clauses at state st.
func (f *FnEnc) baseEnv(st *State) map[string]string {
	env := map[string]string{}
	for k, v := range f.params {
		env[k] = v.T
	}
	if st != nil {
		// locals by name
		seen := map[string]int{}
		var cells []*ssa.Alloc
		for c := range f.cellName {
			cells = append(cells, c)
		}
		sort.Slice(cells, func(i, j int) bool { return f.cellOrder(cells[i]) < f.cellOrder(cells[j]) })
		for _, c := range cells {
			n := f.cellName[c]
			if n == "" {
				continue
			}
			seen[n]++
			key := n
			if seen[n] > 1 {
				key = fmt.Sprintf("%s#%d", n, seen[n])
			}
			if _, isParam := f.params[n]; isParam && seen[n] == 1 {
				// the parameter's cell: current value available as name' (entry value under the plain name)
				key = n + "'"
			}
			if v, ok := st.cells[c]; ok {
				env[key] = v.T
			} else {
				ct := c.Type().(*types.Pointer).Elem()
				env[key] = f.e.reg.zeroOf(ct)
			}
		}
		// heap-promoted named locals: name -> current content, name& -> the cell's reference
		seen2 := map[string]int{}
		var boxes []*ssa.Alloc
		for c := range f.cellName2 {
			boxes = append(boxes, c)
		}
		sort.Slice(boxes, func(i, j int) bool { return f.cellOrder(boxes[i]) < f.cellOrder(boxes[j]) })
		for _, c := range boxes {
			n := f.cellName2[c]
			if n == "" {
				continue
			}
			seen2[n]++
			key := n
			if seen2[n] > 1 {
				key = fmt.Sprintf("%s#%d", n, seen2[n])
			}
			a, ok := f.addrs[c]
			if ok && a.Kind == akObj {
				env[key+"&"] = a.Ref
				continue
			}
			if !ok || a.Kind != akBox {
				continue
			}
			env[key+"&"] = a.Ref
			if _, isParam := f.params[n]; isParam {
				key = n + "'"
			}
			if _, clash := env[key]; !clash {
				env[key] = fmt.Sprintf("(select %s %s)", st.comps[a.Comp], a.Ref)
			}
		}
		env["H"] = "@H"
		env["W"] = st.comps["W"]
	}
	env["H0"] = "@H0"
	env["W0"] = f.entry.comps["W"]
	if f.selfRef != "" {
		env["self"] = f.selfRef
	}
	return env
}

func (f *FnEnc) cellOrder(c *ssa.Alloc) int {
	b := c.Block()
	for i, in := range b.Instrs {
		if in == ssa.Instruction(c) {
			return b.Index*100000 + i
		}
	}
	return b.Index * 100000
}

// evalClause substitutes env into expr and materialises heaps on demand.
func (f *FnEnc) evalClause(expr *SX, env map[string]string) string {
	return f.evalClauseSt(expr, env, f.st, f.entry)
}

func (f *FnEnc) evalClauseSt(expr *SX, env map[string]string, cur, old *State) string {
	if un := f.e.unresolved(expr, env); len(un) > 0 {
		// the clause names a local that does not exist (any more): it cannot be established
		f.unresolvedNote = append(f.unresolvedNote, fmt.Sprintf("clause refers to unknown name(s) %v", un))
		return "false"
	}
	return f.evalWithStates(expr, env, map[string]*State{"H": cur, "H0": old})
}

// evalWithStates substitutes env, inlines macros down to component symbols for the heap states
// named in hs (H, H0), and materialises a Heap value only where a state is used as a value.
func (f *FnEnc) evalWithStates(expr *SX, env map[string]string, hs map[string]*State) string {
	states := map[string]*State{}
	env2 := make(map[string]string, len(env)+2)
	for k, v := range env {
		env2[k] = v
	}
	var hnames []string
	for name := range hs {
		hnames = append(hnames, name)
	}
	sort.Strings(hnames)
	for _, name := range hnames {
		st := hs[name]
		if st == nil {
			continue
		}
		if v, ok := env[name]; ok && !strings.HasPrefix(v, "@") {
			continue // already a concrete heap term
		}
		f.nsym++
		marker := fmt.Sprintf("@state%d", f.nsym)
		states[marker] = st
		env2[name] = marker
	}
	x := expr.subst(env2)
	x = f.expandStates(x, states)
	// remaining markers are first-class heap values
	rest := map[string]bool{}
	x.atoms(rest)
	mat := map[string]string{}
	var marks []string
	for a := range rest {
		if _, ok := states[a]; ok {
			marks = append(marks, a)
		}
	}
	sort.Strings(marks) // fixed order: heapTerm numbers the bundles it creates
	for _, a := range marks {
		mat[a] = f.heapTerm(states[a])
	}
	if len(mat) > 0 {
		x = x.subst(mat)
	}
	return f.e.strLitSubst(x.String())
}

// heapWF returns, for heap component n holding term c, the fact that no stored pointer, slice or
// interface payload refers beyond watermark w ("no dangling future references"), or "".
func (f *FnEnc) heapWF(n, c, w string) string {
	comp := f.e.reg.comps[n]
	if comp == nil || comp.Ghost {
		return ""
	}
	srt := comp.Sort
	ptrLike := func(s string, v string) string {
		switch s {
		case "Slice":
			return fmt.Sprintf("(and (wfSlice %s) (<= (sl.arr %s) %s))", v, v, w)
		case "Any":
			return fmt.Sprintf("(=> (isPtrTid (a.tid %s)) (<= (a.val %s) %s))", v, v, w)
		}
		if si, ok := f.e.reg.structs[s]; ok {
			var ps []string
			for _, fi := range si.Fields {
				sub := ""
				fv := fmt.Sprintf("(%s.%s %s)", si.SortName, fi.Name, v)
				if _, isPtr := fi.Type.Underlying().(*types.Pointer); isPtr {
					sub = fmt.Sprintf("(<= %s %s)", fv, w)
				} else {
					sub = ptrLikeRec(f, fi.Sort, fv, w)
				}
				if sub != "" {
					ps = append(ps, sub)
				}
			}
			if len(ps) > 0 {
				return "(and " + strings.Join(ps, " ") + ")"
			}
		}
		return ""
	}
	if strings.HasPrefix(srt, "(Array Int (Array Int ") {
		el := strings.TrimSuffix(strings.TrimPrefix(srt, "(Array Int (Array Int "), "))")
		body := ptrLike(el, fmt.Sprintf("(select (select %s a) i)", c))
		if body == "" {
			return ""
		}
		return fmt.Sprintf("(forall ((a Int) (i Int)) (! %s :pattern ((select (select %s a) i))))", body, c)
	}
	if strings.HasPrefix(srt, "(Array Int ") && !strings.HasPrefix(srt, "(Array Int (") {
		el := strings.TrimSuffix(strings.TrimPrefix(srt, "(Array Int "), ")")
		v := fmt.Sprintf("(select %s r)", c)
		body := ""
		if el == "Int" {
			if fid, ok := f.e.reg.fidByComp[n]; ok && f.e.ptrField[fid] {
				body = fmt.Sprintf("(<= %s %s)", v, w)
			} else if ok {
				if bt, isB := f.e.intField[fid]; isB {
					lo, hi := intRange(bt)
					body = fmt.Sprintf("(and (<= %s %s) (<= %s %s))", lo, v, v, hi)
				}
			}
		} else {
			body = ptrLike(el, v)
		}
		if body == "" {
			return ""
		}
		return fmt.Sprintf("(forall ((r Int)) (! %s :pattern ((select %s r))))", body, c)
	}
	return ""
}

func ptrLikeRec(f *FnEnc, s, v, w string) string {
	switch s {
	case "Slice":
		return fmt.Sprintf("(<= (sl.arr %s) %s)", v, w)
	case "Any":
		return fmt.Sprintf("(=> (isPtrTid (a.tid %s)) (<= (a.val %s) %s))", v, v, w)
	}
	return ""
}

// seg: the script text from pos on was emitted while encoding block blk (-1: before the body).
type seg struct {
	pos int
	blk int
}

func (f *FnEnc) curBlockIdx() int {
	if f.curBlock == nil {
		return -1
	}
	return f.curBlock.Index
}

// ancestors returns the set of blocks from which block b is reachable along forward edges
// (b included).
func (f *FnEnc) ancestors(b int) map[int]bool {
	// called from the solver workers: the memo table is shared
	f.ancMu.Lock()
	defer f.ancMu.Unlock()
	if f.anc == nil {
		f.anc = map[int]map[int]bool{}
	}
	if a, ok := f.anc[b]; ok {
		return a
	}
	a := map[int]bool{}
	var walk func(x *ssa.BasicBlock)
	walk = func(x *ssa.BasicBlock) {
		if a[x.Index] {
			return
		}
		a[x.Index] = true
		for _, p := range x.Preds {
			if !f.isBackEdge(p, x) {
				walk(p)
			}
		}
	}
	walk(f.fn.Blocks[b])
	f.anc[b] = a
	return a
}

// slice returns the script text in [from,to) restricted to what was emitted before the body or in
// blocks that reach block blk. Dropping the text of other blocks only removes assumptions (and
// definitions nothing kept refers to), so a goal proved from the slice is proved.
func (f *FnEnc) slice(from, to, blk int, sliced bool) string {
	full := f.out.String()
	if !sliced || blk < 0 || len(f.segs) == 0 || f.fn == nil || blk >= len(f.fn.Blocks) {
		return full[from:to]
	}
	anc := f.ancestors(blk)
	var b strings.Builder
	emit := func(lo, hi, sb int) {
		if lo < from {
			lo = from
		}
		if hi > to {
			hi = to
		}
		if lo >= hi {
			return
		}
		if sb < 0 || anc[sb] {
			b.WriteString(full[lo:hi])
			return
		}
		// a block that does not reach the obligation: keep its declarations and abbreviations
		// (later text may refer to them, e.g. memoised heap bundles), drop its assertions
		for _, l := range strings.SplitAfter(full[lo:hi], "\n") {
			if !strings.HasPrefix(l, "(assert") {
				b.WriteString(l)
			}
		}
	}
	emit(0, f.segs[0].pos, -1)
	for i, sg := range f.segs {
		hi := len(full)
		if i+1 < len(f.segs) {
			hi = f.segs[i+1].pos
		}
		emit(sg.pos, hi, sg.blk)
	}
	return b.String()
}
