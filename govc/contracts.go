package main

import (
	"bufio"
	"fmt"
	"os"
	"path/filepath"
	"regexp"
	"sort"
	"strconv"
	"strings"
)

// Clause is one contract clause.
type Clause struct {
	Kind   string // requires | ensures | invariant | assume | cover
	Label  string
	Tags   []string
	Expr   *SX
	Loop   int // for invariants: loop ordinal (1-based)
	Theory string
	Src    string // file:line
	Raw    string
}

// Contract is the contract of one function (or abstract callee).
type Contract struct {
	Name      string // function name relative to package, or abstract key
	Abstract  bool   // abstract callee (function value / interface method / external)
	Trusted   bool   // contract assumed, body not verified
	Tags      []string
	Params    []string // for abstract contracts: formal parameter names
	Results   []string // for abstract contracts: result names
	Requires  []*Clause
	Ensures   []*Clause
	Invs      []*Clause
	Modifies  []string // heap component patterns
	ModSet    bool     // a modifies line was present
	Pure      bool
	LoopMods  map[int][]string
	Src       string
	Notes     []string
	NoBody    bool
	SafeUnder *SX // automatic safety obligations are claimed only under this condition
	Uses      []string
	BoxPtr    []string    // pointer parameters that always point to heap-allocated cells (never into objects)
	Waive     [][2]string // obligation-name suffix, reason: assumed instead of checked (listed)
	AfterCall []*Clause   // must hold right after every abstract (external) call: crash points
}

// ContractSet holds all contracts of one package plus raw SMT prelude text.
type ContractSet struct {
	ByName     map[string]*Contract
	Prelude    []PreludeItem // raw SMT commands (define-fun, declare-fun, assert ...) in order
	curTheory  string
	Ghost      []GhostDecl
	Lemmas     []*Clause
	Assumes    []string // textual list of assumptions declared in the file
	Files      []string
	Directives [][3]string // keyword, rest, src
	Inducts    []*Induct
}

// Induct is an induction schema: base and step are proved, the conclusion becomes an axiom.
type Induct struct {
	Label  string
	Tags   []string
	Var    string
	Body   *SX
	Src    string
	Theory string
}

// PreludeItem is one raw SMT command; axioms (assert) inside a `theory NAME` block are only
// included in the queries of functions that declare `uses NAME`.
type PreludeItem struct {
	Text   string
	Theory string
}

type GhostDecl struct {
	Comp string // component name, e.g. G.loads or mastNode.lvl
	Sort string // SMT sort of the component (full array sort for fields)
}

var tagRe = regexp.MustCompile(`^\[([A-Za-z0-9, ]*)\]$`)

// parseContractFiles reads every *.go file in dir that starts with a `verif` build tag and
// collects the //@ lines.
func parseContractFiles(dir string) (*ContractSet, error) {
	cs := &ContractSet{ByName: map[string]*Contract{}}
	ents, err := os.ReadDir(dir)
	if err != nil {
		return nil, err
	}
	var files []string
	for _, e := range ents {
		if strings.HasPrefix(e.Name(), "verif_") && strings.HasSuffix(e.Name(), ".go") {
			files = append(files, filepath.Join(dir, e.Name()))
		}
	}
	sort.Strings(files)
	for _, f := range files {
		if err := cs.parseFile(f); err != nil {
			return nil, err
		}
		cs.Files = append(cs.Files, f)
	}
	return cs, nil
}

func (cs *ContractSet) parseFile(path string) error {
	fh, err := os.Open(path)
	if err != nil {
		return err
	}
	defer fh.Close()
	sc := bufio.NewScanner(fh)
	sc.Buffer(make([]byte, 1<<20), 1<<24)
	var cur *Contract
	lineNo := 0
	var pending string // accumulated clause text
	var pendingLine int
	flush := func() error {
		if pending == "" {
			return nil
		}
		txt := pending
		pending = ""
		return cs.handle(&cur, txt, fmt.Sprintf("%s:%d", filepath.Base(path), pendingLine))
	}
	for sc.Scan() {
		lineNo++
		line := sc.Text()
		t := strings.TrimSpace(line)
		if !strings.HasPrefix(t, "//@") {
			if err := flush(); err != nil {
				return err
			}
			continue
		}
		body := strings.TrimPrefix(t, "//@")
		if strings.TrimSpace(body) == "" {
			continue
		}
		// continuation line: starts with at least two spaces or a tab after //@, or pending is unbalanced
		if pending != "" && !balanced(pending) {
			pending += "\n" + body
			continue
		}
		if err := flush(); err != nil {
			return err
		}
		pending = strings.TrimSpace(body)
		pendingLine = lineNo
	}
	return flush()
}

func splitHead(s string) (string, string) {
	s = strings.TrimSpace(s)
	i := strings.IndexAny(s, " \t\n")
	if i < 0 {
		return s, ""
	}
	return s[:i], strings.TrimSpace(s[i:])
}

func (cs *ContractSet) handle(cur **Contract, txt, src string) error {
	head, rest := splitHead(txt)
	switch head {
	case "--", "#":
		return nil
	case "func", "abstract":
		name := rest
		c := &Contract{Name: name, Src: src, LoopMods: map[int][]string{}}
		if head == "abstract" {
			// abstract NAME (p1 p2 ...) -> (r1 r2)
			c.Abstract = true
			nm, r2 := splitHead(rest)
			c.Name = nm
			if r2 != "" {
				parts := strings.SplitN(r2, "->", 2)
				ps := strings.Trim(strings.TrimSpace(parts[0]), "()")
				c.Params = strings.Fields(ps)
				if len(parts) == 2 {
					rs := strings.Trim(strings.TrimSpace(parts[1]), "()")
					c.Results = strings.Fields(rs)
				}
			}
		}
		if _, dup := cs.ByName[c.Name]; dup {
			return fmt.Errorf("%s: duplicate contract for %s", src, c.Name)
		}
		cs.ByName[c.Name] = c
		*cur = c
		return nil
	case "smt":
		if !balanced(rest) {
			return fmt.Errorf("%s: unbalanced smt block", src)
		}
		th := ""
		if strings.HasPrefix(strings.TrimSpace(rest), "(assert") {
			th = cs.curTheory
		}
		cs.Prelude = append(cs.Prelude, PreludeItem{Text: rest, Theory: th})
		return nil
	case "theory":
		cs.curTheory = strings.TrimSpace(rest)
		return nil
	case "endtheory":
		cs.curTheory = ""
		return nil
	case "ghost":
		// ghost COMP SORT...
		comp, srt := splitHead(rest)
		cs.Ghost = append(cs.Ghost, GhostDecl{Comp: comp, Sort: srt})
		return nil
	case "assumption":
		cs.Assumes = append(cs.Assumes, rest)
		return nil
	case "lemma":
		cl, err := parseClause("lemma", rest, src)
		if err != nil {
			return err
		}
		cl.Theory = cs.curTheory
		cs.Lemmas = append(cs.Lemmas, cl)
		return nil
	case "induct":
		// induct LABEL [tags] VAR BODY
		label, r2 := splitHead(rest)
		ind := &Induct{Label: label, Src: src}
		r2 = strings.TrimSpace(r2)
		if strings.HasPrefix(r2, "[") {
			j := strings.Index(r2, "]")
			ind.Tags = strings.FieldsFunc(r2[1:j], func(r rune) bool { return r == ',' || r == ' ' })
			r2 = strings.TrimSpace(r2[j+1:])
		}
		v, r3 := splitHead(r2)
		ind.Var = v
		e, err := parseOneSX(r3)
		if err != nil {
			return fmt.Errorf("%s: induct %s: %v", src, label, err)
		}
		ind.Body = e
		ind.Theory = cs.curTheory
		cs.Inducts = append(cs.Inducts, ind)
		return nil
	case "guardrule", "constfield", "elemptr", "modelstruct":
		cs.Directives = append(cs.Directives, [3]string{head, rest, src})
		return nil
	}
	if *cur == nil {
		return fmt.Errorf("%s: clause %q outside of a func block", src, head)
	}
	c := *cur
	switch head {
	case "tags":
		c.Tags = append(c.Tags, strings.Fields(rest)...)
	case "trusted":
		c.Trusted = true
		if rest != "" {
			c.Notes = append(c.Notes, rest)
		}
	case "uses":
		c.Uses = append(c.Uses, strings.Fields(rest)...)
	case "safe-under":
		e, err := parseOneSX(rest)
		if err != nil {
			return fmt.Errorf("%s: safe-under: %v", src, err)
		}
		c.SafeUnder = e
	case "pure":
		c.Pure = true
		c.ModSet = true
	case "note":
		c.Notes = append(c.Notes, rest)
	case "modifies":
		c.ModSet = true
		c.Modifies = append(c.Modifies, strings.Fields(rest)...)
	case "boxptr":
		c.BoxPtr = append(c.BoxPtr, strings.Fields(rest)...)
	case "waive":
		pat, reason := splitHead(rest)
		c.Waive = append(c.Waive, [2]string{pat, reason})
	case "after-each-call":
		cl, err := parseClause("crash", rest, src)
		if err != nil {
			return err
		}
		c.AfterCall = append(c.AfterCall, cl)
	case "requires", "ensures":
		cl, err := parseClause(head, rest, src)
		if err != nil {
			return err
		}
		if head == "requires" {
			c.Requires = append(c.Requires, cl)
		} else {
			c.Ensures = append(c.Ensures, cl)
		}
	case "loop":
		// loop K invariant LABEL [tags] expr   |   loop K modifies comps
		ks, r2 := splitHead(rest)
		k, err := strconv.Atoi(ks)
		if err != nil {
			return fmt.Errorf("%s: bad loop ordinal %q", src, ks)
		}
		kw, r3 := splitHead(r2)
		switch kw {
		case "invariant":
			cl, err := parseClause("invariant", r3, src)
			if err != nil {
				return err
			}
			cl.Loop = k
			c.Invs = append(c.Invs, cl)
		case "modifies":
			c.LoopMods[k] = append(c.LoopMods[k], strings.Fields(r3)...)
		default:
			return fmt.Errorf("%s: unknown loop clause %q", src, kw)
		}
	default:
		return fmt.Errorf("%s: unknown contract keyword %q", src, head)
	}
	return nil
}

func parseClause(kind, rest, src string) (*Clause, error) {
	label, r2 := splitHead(rest)
	cl := &Clause{Kind: kind, Label: label, Src: src}
	r2 = strings.TrimSpace(r2)
	if strings.HasPrefix(r2, "[") {
		j := strings.Index(r2, "]")
		if j < 0 {
			return nil, fmt.Errorf("%s: unterminated tag list", src)
		}
		for _, t := range strings.FieldsFunc(r2[1:j], func(r rune) bool { return r == ',' || r == ' ' }) {
			cl.Tags = append(cl.Tags, t)
		}
		r2 = strings.TrimSpace(r2[j+1:])
	}
	cl.Raw = r2
	e, err := parseOneSX(r2)
	if err != nil {
		return nil, fmt.Errorf("%s: clause %s: %v", src, label, err)
	}
	cl.Expr = e
	return cl, nil
}

func hasTag(tags []string, t string) bool {
	if t == "" {
		return true
	}
	for _, x := range tags {
		if x == t {
			return true
		}
	}
	return false
}

// allText returns all contract text (used to decide which types the contracts mention).
func (cs *ContractSet) allText() string {
	var b strings.Builder
	for _, p := range cs.Prelude {
		b.WriteString(p.Text)
		b.WriteByte('\n')
	}
	for _, c := range cs.ByName {
		for _, l := range [][]*Clause{c.Requires, c.Ensures, c.Invs} {
			for _, cl := range l {
				b.WriteString(cl.Raw)
				b.WriteByte('\n')
			}
		}
		b.WriteString(strings.Join(c.Modifies, " "))
		b.WriteByte('\n')
		if c.SafeUnder != nil {
			b.WriteString(c.SafeUnder.String())
		}
	}
	for _, l := range cs.Lemmas {
		b.WriteString(l.Raw)
	}
	for _, d := range cs.Directives {
		b.WriteString(d[1])
		b.WriteByte('\n')
	}
	return b.String()
}
