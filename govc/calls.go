package main

import (
	"fmt"
	"go/types"
	"strings"

	"golang.org/x/tools/go/ssa"
)

// calleeKey determines how a call is resolved.
func (f *FnEnc) doCall(x ssa.Value, c *ssa.CallCommon) {
	if c.IsInvoke() {
		recv := f.val(c.Value)
		f.oblige("safe", "nil", f.autoTags(), fmt.Sprintf("(not (= %s anil))", recv.T), "")
		it := c.Value.Type()
		key := fmt.Sprintf("%s.%s", f.e.reg.shortTypeName(it), c.Method.Name())
		args := []Val{recv}
		argVs := []ssa.Value{c.Value}
		for _, a := range c.Args {
			args = append(args, f.val(a))
			argVs = append(argVs, a)
		}
		f.callAbstract(x, key, args, argVs, c.Signature().Results())
		return
	}
	switch fn := c.Value.(type) {
	case *ssa.Builtin:
		f.doBuiltin(x, fn, c)
		return
	case *ssa.Function:
		args, argVs := f.callArgs(c)
		if fn.Pkg == f.e.pkg && fn.Blocks != nil {
			f.callStatic(x, fn, args, argVs, nil)
			return
		}
		key := fn.String()
		if fn.Pkg != nil && fn.Signature.Recv() == nil {
			key = fn.Pkg.Pkg.Name() + "." + fn.Name()
		} else if fn.Signature.Recv() != nil {
			key = strings.ReplaceAll(fn.String(), fn.Pkg.Pkg.Path(), fn.Pkg.Pkg.Name())
		}
		if origin := fn.Origin(); origin != nil {
			key = origin.Pkg.Pkg.Name() + "." + origin.Name()
		}
		f.callAbstract(x, key, args, argVs, c.Signature().Results())
		return
	case *ssa.MakeClosure:
		args, argVs := f.callArgs(c)
		f.callStatic(x, fn.Fn.(*ssa.Function), args, argVs, fn)
		return
	}
	// function value
	args, argVs := f.callArgs(c)
	if cl, ok := f.clos[c.Value]; ok {
		f.callStatic(x, cl.Fn.(*ssa.Function), args, argVs, cl)
		return
	}
	fv := f.val(c.Value)
	f.oblige("safe", "nilfunc", f.autoTags(), fmt.Sprintf("(not (= %s 0))", fv.T), "")
	key, ok := f.fnKeys[c.Value]
	if !ok {
		key = "functype:" + strings.ReplaceAll(f.e.reg.shortTypeName(c.Value.Type()), " ", "_")
	}
	if strings.HasPrefix(key, "param:") {
		key = "param:" + f.name + "." + strings.TrimPrefix(key, "param:")
	}
	f.callAbstract(x, key, args, argVs, c.Signature().Results())
}

func (f *FnEnc) callArgs(c *ssa.CallCommon) ([]Val, []ssa.Value) {
	var args []Val
	var argVs []ssa.Value
	for _, a := range c.Args {
		args = append(args, f.val(a))
		argVs = append(argVs, a)
	}
	return args, argVs
}

func (f *FnEnc) setResults(x ssa.Value, res []Val, results *types.Tuple) {
	if x == nil || results == nil {
		return
	}
	switch results.Len() {
	case 0:
	case 1:
		f.vals[x] = res[0]
	default:
		f.tuples[x] = res
	}
}

// callStatic applies the contract of a package function (or closure) at a call site.
func (f *FnEnc) callStatic(x ssa.Value, fn *ssa.Function, args []Val, argVs []ssa.Value, cl *ssa.MakeClosure) {
	name := relFuncName(fn, f.e.pkg)
	ct := f.e.cs.ByName[name]
	if ct == nil {
		f.unmodelled[name] = true
		ct = &Contract{Name: name}
	}
	env := map[string]string{}
	for i, p := range fn.Params {
		if i < len(args) {
			env[p.Name()] = args[i].T
		}
	}
	if cl != nil {
		for i, fv := range fn.FreeVars {
			env[fv.Name()] = f.val(cl.Bindings[i]).T
		}
	}
	if fn.Signature.Recv() != nil && len(args) > 0 {
		env["self"] = args[0].T
	}
	for i, p := range fn.Params {
		if i < len(args) && hasTag(ct.BoxPtr, p.Name()) {
			f.oblige("pre", name+".boxptr."+p.Name(), ct.Tags, fmt.Sprintf("(> %s 0)", args[i].T), "")
		}
	}
	res := f.applyContract(ct, name, env, fn.Signature.Results(), fn)
	f.setResults(x, res, fn.Signature.Results())
}

// callAbstract applies an abstract contract (function value, interface method, external function).
func (f *FnEnc) callAbstract(x ssa.Value, key string, args []Val, argVs []ssa.Value, results *types.Tuple) {
	if f.builtinExternal(x, key, args, argVs, results) {
		return
	}
	ct := f.e.cs.ByName[key+"@"+f.name]
	if ct != nil {
		key = key + "@" + f.name
	} else {
		ct = f.e.cs.ByName[key]
	}
	if ct == nil {
		// unmodelled callee: sound fallback -- it may change everything and return anything
		f.unmodelled[key] = true
		ct = &Contract{Name: key, Abstract: true}
	}
	// abstract contracts may mention the caller's named locals (call-site contracts)
	env := f.baseEnv(f.st)
	delete(env, "H")
	delete(env, "H0")
	for i, p := range ct.Params {
		if i < len(args) {
			env[p] = args[i].T
		}
	}
	for i := range args {
		env[fmt.Sprintf("arg%d", i)] = args[i].T
	}
	f.trustedUsed[key] = true
	res := f.applyContract(ct, key, env, results, nil)
	f.setResults(x, res, results)
	// crash points: the state right after an external call is what survives a crash there
	if f.c != nil {
		for _, cl := range f.c.AfterCall {
			tags := cl.Tags
			if len(tags) == 0 {
				tags = f.c.Tags
			}
			if !f.wantTags(tags) {
				continue
			}
			f.obligeNoAssume("crash", cl.Label+"@"+key, tags, f.evalClause(cl.Expr, f.baseEnv(f.st)), cl.Src)
		}
	}
}

// applyContract: assert requires, havoc modifies, assume ensures. env maps formal names to actuals.
func (f *FnEnc) applyContract(ct *Contract, name string, env map[string]string, results *types.Tuple, fn *ssa.Function) []Val {
	f.callN[name]++
	site := fmt.Sprintf("%s#%d", name, f.callN[name])
	pre := f.st
	envPre := map[string]string{}
	for k, v := range env {
		envPre[k] = v
	}
	envPre["W"] = pre.comps["W"]
	envPre["W0"] = pre.comps["W"]
	for _, r := range ct.Requires {
		tags := r.Tags
		if len(tags) == 0 {
			tags = ct.Tags
		}
		e2 := map[string]string{}
		for k, v := range envPre {
			e2[k] = v
		}
		e2["H"] = "@"
		e2["H0"] = "@"
		goal := f.evalWithStates(r.Expr, e2, map[string]*State{"H": pre, "H0": pre})
		if f.wantTags(tags) {
			f.oblige("pre", name+"."+r.Label, tags, goal, "")
		} else {
			f.assume(goal)
		}
	}
	// havoc
	post := pre.clone()
	f.st = post
	if !ct.Pure {
		var mods []string
		freshOnly := map[string]bool{}
		if ct.ModSet {
			mods, freshOnly = f.e.modSpec(ct.Modifies)
		} else {
			mods = f.e.reg.compOrd
		}
		for _, n := range mods {
			if _, ok := f.e.consts[n]; ok {
				continue
			}
			post.comps[n] = f.fresh(n+"@"+sanitize(site), f.e.reg.comps[n].Sort)
			if freshOnly[n] {
				f.assume(frameFact(post.comps[n], pre.comps[n], pre.comps["W"]))
			}
		}
		if post.comps["W"] != pre.comps["W"] {
			f.assume(fmt.Sprintf("(>= %s %s)", post.comps["W"], pre.comps["W"]))
		}
		for _, n := range mods {
			if post.comps[n] != pre.comps[n] && f.relevant[n] {
				if wf := f.heapWF(n, post.comps[n], post.comps["W"]); wf != "" {
					f.assume(wf)
				}
			}
		}
	}
	// results
	var res []Val
	if results != nil {
		for i := 0; i < results.Len(); i++ {
			t := results.At(i).Type()
			s := f.e.reg.sortOf(t)
			c := f.fresh("r."+sanitize(site), s)
			res = append(res, Val{c, s})
			if tf := f.typeFacts(t, c); tf != "true" {
				f.assume(tf)
			}
		}
	}
	envPost := map[string]string{}
	for k, v := range env {
		envPost[k] = v
	}
	envPost["W"] = post.comps["W"]
	envPost["W0"] = pre.comps["W"]
	for i, r := range res {
		envPost[fmt.Sprintf("result%d", i)] = r.T
		if i < len(ct.Results) {
			envPost[ct.Results[i]] = r.T
		}
		if results != nil && i < results.Len() {
			if n := results.At(i).Name(); n != "" && n != "_" {
				if _, clash := env[n]; !clash {
					envPost[n] = r.T
				}
				envPost[n+"!"] = r.T
			}
		}
	}
	if len(res) == 1 {
		envPost["result"] = res[0].T
	}
	if n := len(res); n > 0 && results != nil && isErrorType(results.At(n-1).Type()) {
		envPost["err"] = res[n-1].T
	}
	for _, en := range ct.Ensures {
		if hasTag(en.Tags, "only") && !f.wantTags(en.Tags) {
			// a clause marked "only" is a fact for the listed properties alone: other runs neither
			// prove nor use it (keeps their queries free of quantified facts they do not need)
			continue
		}
		{
			chk := map[string]string{"H": "", "H0": ""}
			for k, v := range envPost {
				chk[k] = v
			}
			if un := f.e.unresolved(en.Expr, chk); len(un) > 0 {
				// the clause speaks about the callee's own locals: not usable at a call site
				f.e.noteOnce(fmt.Sprintf("note: ensures %s of %s is not used at call sites (names %v are not visible there)", en.Label, name, un))
				continue
			}
		}
		e2 := map[string]string{}
		for k, v := range envPost {
			e2[k] = v
		}
		e2["H"] = "@"
		e2["H0"] = "@"
		f.assume(f.evalWithStates(en.Expr, e2, map[string]*State{"H": post, "H0": pre}))
	}
	return res
}

// ---------------------------------------------------------------------------------------------
// builtins

func (f *FnEnc) doBuiltin(x ssa.Value, b *ssa.Builtin, c *ssa.CallCommon) {
	switch b.Name() {
	case "len":
		v := f.val(c.Args[0])
		switch v.S {
		case "Slice":
			f.setVal(x, fmt.Sprintf("(sl.len %s)", v.T))
		case "BS":
			f.setVal(x, fmt.Sprintf("(blen (bs.val %s))", v.T))
		case "Bytes":
			f.setVal(x, fmt.Sprintf("(blen %s)", v.T))
		default:
			f.fail("len of sort %s", v.S)
		}
	case "cap":
		v := f.val(c.Args[0])
		switch v.S {
		case "Slice":
			f.setVal(x, fmt.Sprintf("(sl.cap %s)", v.T))
		case "BS":
			cp := f.fresh("cap", "Int")
			f.assume(fmt.Sprintf("(>= %s (blen (bs.val %s)))", cp, v.T))
			f.vals[x] = Val{cp, "Int"}
		default:
			f.fail("cap of sort %s", v.S)
		}
	case "append":
		f.doAppend(x, c)
	case "close":
		f.chanHook("close", f.val(c.Args[0]).T, nil)
	case "ssa:deferstack":
		f.vals[x] = Val{"0", "Int"}
	case "copy":
		f.fail("builtin copy unsupported")
	default:
		f.fail("unsupported builtin %s", b.Name())
	}
}

func (f *FnEnc) doAppend(x ssa.Value, c *ssa.CallCommon) {
	s := f.val(c.Args[0])
	t := f.val(c.Args[1])
	if s.S == "BS" {
		var tb string
		switch t.S {
		case "BS":
			tb = fmt.Sprintf("(bs.val %s)", t.T)
		case "Bytes":
			tb = t.T
		default:
			f.fail("append to []byte of sort %s", t.S)
			return
		}
		f.setVal(x, fmt.Sprintf("(mkBS (and (bs.nil %s) (= (blen %s) 0)) (cat (bs.val %s) %s))", s.T, tb, s.T, tb))
		return
	}
	if s.S != "Slice" || t.S != "Slice" {
		f.fail("append on sorts %s, %s", s.S, t.S)
		return
	}
	st := c.Args[0].Type().Underlying().(*types.Slice)
	ac := f.e.reg.arrComp(st.Elem())
	es := f.e.reg.sortOf(st.Elem())
	n := f.def("app.n", "Int", fmt.Sprintf("(+ (sl.len %s) (sl.len %s))", s.T, t.T))
	fits := f.def("app.fits", "Bool", fmt.Sprintf("(<= %s (sl.cap %s))", n, s.T))
	// in-place append writes into the backing array of s
	if p, ok := f.provs[c.Args[0]]; ok {
		f.guardAppend(ac, fmt.Sprintf("(sl.arr %s)", s.T), p, fits, t.T)
	} else {
		f.guardAppend(ac, fmt.Sprintf("(sl.arr %s)", s.T), Prov{}, fits, t.T)
	}
	na := f.alloc()
	ncap := f.fresh("app.cap", "Int")
	f.assume(fmt.Sprintf("(>= %s %s)", ncap, n))
	res := f.def("app.res", "Slice", fmt.Sprintf("(ite %s (mkSlice (sl.arr %s) (sl.off %s) %s (sl.cap %s)) (mkSlice %s 0 %s %s))", fits, s.T, s.T, n, s.T, na, n, ncap))
	A := f.comp(ac)
	A2 := f.fresh(ac+"@app", f.compSort(ac))
	// memmove semantics: all reads are from the old heap A
	body := fmt.Sprintf("(= (select (select %s a) i) "+
		"(ite (and (= a (sl.arr %s)) (<= (+ (sl.off %s) (sl.len %s)) i) (< i (+ (sl.off %s) %s))) (select (select %s (sl.arr %s)) (+ (sl.off %s) (- i (+ (sl.off %s) (sl.len %s))))) "+
		"(ite (and (not %s) (= a %s) (<= 0 i) (< i (sl.len %s))) (select (select %s (sl.arr %s)) (+ (sl.off %s) i)) "+
		"(select (select %s a) i))))",
		A2, res, res, s.T, res, n, A, t.T, t.T, res, s.T,
		fits, na, s.T, A, s.T, s.T, A)
	f.emit("(assert (forall ((a Int) (i Int)) (! %s :pattern ((select (select %s a) i)))))", body, A2)
	_ = es
	// redundant but useful: arrays other than the destination are untouched as a whole
	f.emit("(assert (forall ((a Int)) (! (=> (not (= a (sl.arr %s))) (= (select %s a) (select %s a))) :pattern ((select %s a)))))", res, A2, A, A2)
	f.st.comps[ac] = A2
	f.vals[x] = Val{res, "Slice"}
	if p, ok := f.provs[c.Args[0]]; ok {
		f.provs[x] = p
	}
}

func (f *FnEnc) guardAppend(ac, arr string, p Prov, fits, t string) {
	for _, g := range f.e.guards {
		if !g.Elem || !g.Comps[ac] || !f.wantTags(g.Tags) {
			continue
		}
		env := f.baseEnv(f.st)
		env["arr"] = arr
		if p.Ref != "" {
			env["r"] = p.Ref
			env["hasprov"] = "true"
		} else {
			env["r"] = "0"
			env["hasprov"] = "false"
		}
		goal := fmt.Sprintf("(=> (and %s (> (sl.len %s) 0)) %s)", fits, t, f.evalClause(g.Expr, env))
		f.oblige("guard", g.Name+".append", g.Tags, goal, "")
	}
}

// ---------------------------------------------------------------------------------------------
// trusted externals with engine-level semantics

func (f *FnEnc) errTid() int {
	return f.e.reg.tid(types.Universe.Lookup("error").Type())
}

func (f *FnEnc) newError() Val {
	r := f.alloc()
	return Val{f.def("err", "Any", fmt.Sprintf("(mkAny %d %s)", f.errTid(), r)), "Any"}
}

func (f *FnEnc) builtinExternal(x ssa.Value, key string, args []Val, argVs []ssa.Value, results *types.Tuple) bool {
	switch key {
	case "fmt.Errorf", "errors.New":
		f.trustedUsed[key] = true
		f.vals[x] = f.newError()
		return true
	case "fmt.Printf", "fmt.Println", "fmt.Print":
		f.trustedUsed[key] = true
		f.tuples[x] = []Val{{"0", "Int"}, {"anil", "Any"}}
		return true
	case "binary.PutUvarint":
		// A2: writes the uvarint encoding of x at the start of buf and returns its length; panics
		// (index out of range) when buf is too short
		f.trustedUsed[key] = true
		buf, xv := args[0], args[1]
		n := f.def("uvn", "Int", fmt.Sprintf("(blen (uv %s))", xv.T))
		f.oblige("safe", "putuvarint", f.autoTags(), fmt.Sprintf("(<= %s (blen (bs.val %s)))", n, buf.T), "")
		if len(argVs) > 0 {
			if org, ok := f.byteOrigin[argVs[0]]; ok {
				cur := f.load(org)
				f.store(org, Val{fmt.Sprintf("(cat (uv %s) (drop %s %s))", xv.T, cur.T, n), "Bytes"})
			}
		}
		f.vals[x] = Val{n, "Int"}
		return true
	case "fmt.Sprintf":
		f.trustedUsed[key] = true
		// uninterpreted function of the format literal and the argument values
		lit := args[0].T
		var elems []string
		if len(argVs) > 1 {
			if sa, ok := f.smallArr[argVs[1]]; ok && sa.full {
				for i := 0; i < sa.n; i++ {
					elems = append(elems, f.readElem("Arr.Any", sa.ref, fmt.Sprintf("%d", i)))
				}
			} else if !isNilSliceConst(argVs[1]) {
				f.fail("fmt.Sprintf with non-literal varargs")
				return true
			}
		}
		fnName := fmt.Sprintf("sprintf%d", len(elems))
		f.e.needSprintf(len(elems))
		t := "(" + fnName + " " + lit
		for _, el := range elems {
			t += " " + el
		}
		t += ")"
		f.setVal(x, t)
		return true
	}
	return false
}

func isNilSliceConst(v ssa.Value) bool {
	c, ok := v.(*ssa.Const)
	return ok && c.Value == nil
}

// ---------------------------------------------------------------------------------------------
// goroutines, channels, defers

func (f *FnEnc) doGo(x *ssa.Go) {
	// the spawned body is verified separately as a sequential function; here the start is a ghost event
	f.chanHook("go", "0", &x.Call)
	if cl, ok := x.Call.Value.(*ssa.MakeClosure); ok {
		f.checkClosurePre(cl, "go")
	} else if cl, ok := f.clos[x.Call.Value]; ok {
		f.checkClosurePre(cl, "go")
	}
}

func (f *FnEnc) doDefer(x *ssa.Defer) {
	f.defers = append(f.defers, x)
}

func (f *FnEnc) doRunDefers() {
	for i := len(f.defers) - 1; i >= 0; i-- {
		d := f.defers[i]
		f.doCall(nil, &d.Call)
	}
}

func (f *FnEnc) doSend(x *ssa.Send) {
	f.chanHook("send", f.val(x.Chan).T, nil)
	_ = f.val(x.X)
	// a closure handed to another goroutine: its preconditions must hold where it is queued
	if cl, ok := f.clos[x.X]; ok {
		f.checkClosurePre(cl, "queued")
	}
}

// checkClosurePre emits the preconditions of a closure's contract at the point where the closure
// is created and handed over (sent on a channel or started with go).
func (f *FnEnc) checkClosurePre(cl *ssa.MakeClosure, how string) {
	fn := cl.Fn.(*ssa.Function)
	name := relFuncName(fn, f.e.pkg)
	ct := f.e.cs.ByName[name]
	if ct == nil {
		return
	}
	env := map[string]string{}
	for i, fv := range fn.FreeVars {
		env[fv.Name()] = f.val(cl.Bindings[i]).T
	}
	env["W"] = f.st.comps["W"]
	env["W0"] = f.st.comps["W"]
	for _, r := range ct.Requires {
		tags := r.Tags
		if len(tags) == 0 {
			tags = ct.Tags
		}
		if len(f.e.unresolved(r.Expr, mergeEnv(env, map[string]string{"H": "", "H0": ""}))) > 0 {
			continue // speaks about the closure's own parameters
		}
		e2 := mergeEnv(env, map[string]string{"H": "@", "H0": "@"})
		goal := f.evalWithStates(r.Expr, e2, map[string]*State{"H": f.st, "H0": f.st})
		f.oblige("pre", name+"."+r.Label+"@"+how, tags, goal, "")
	}
}

func mergeEnv(a, b map[string]string) map[string]string {
	out := make(map[string]string, len(a)+len(b))
	for k, v := range a {
		out[k] = v
	}
	for k, v := range b {
		out[k] = v
	}
	return out
}

func (f *FnEnc) doRecv(x *ssa.UnOp) {
	s := f.e.reg.sortOf(x.Type())
	if x.CommaOk {
		f.tuples[x] = []Val{{f.fresh("recv", s), s}, {f.fresh("recvok", "Bool"), "Bool"}}
		return
	}
	c := f.fresh("recv", s)
	f.vals[x] = Val{c, s}
	if tf := f.typeFacts(x.Type(), c); tf != "true" {
		f.assume(tf)
	}
	f.chanHook("recv", f.val(x.X).T, nil)
}

// chanHook applies the optional abstract contracts "chan.send", "chan.recv", "chan.close", "go.start".
func (f *FnEnc) chanHook(kind, ch string, call *ssa.CallCommon) {
	key := "chan." + kind
	if kind == "go" {
		key = "go.start"
	}
	ct := f.e.cs.ByName[key]
	if ct == nil {
		return
	}
	env := map[string]string{"ch": ch}
	f.applyContract(ct, key, env, nil, nil)
}

// staticCallKey resolves the contract key of a call without symbolic values (used by the
// loop modified-set pre-pass). Returns the contract (or nil) and whether the callee is known.
func (f *FnEnc) staticCallContract(c *ssa.CallCommon) (*Contract, string, bool) {
	if c.IsInvoke() {
		key := fmt.Sprintf("%s.%s", f.e.reg.shortTypeName(c.Value.Type()), c.Method.Name())
		return f.e.cs.ByName[key], key, true
	}
	switch fn := c.Value.(type) {
	case *ssa.Function:
		if fn.Pkg == f.e.pkg && fn.Blocks != nil {
			n := relFuncName(fn, f.e.pkg)
			return f.e.cs.ByName[n], n, true
		}
		key := fn.String()
		if fn.Pkg != nil && fn.Signature.Recv() == nil {
			key = fn.Pkg.Pkg.Name() + "." + fn.Name()
		} else if fn.Signature.Recv() != nil {
			key = strings.ReplaceAll(fn.String(), fn.Pkg.Pkg.Path(), fn.Pkg.Pkg.Name())
		}
		if origin := fn.Origin(); origin != nil {
			key = origin.Pkg.Pkg.Name() + "." + origin.Name()
		}
		return f.e.cs.ByName[key], key, true
	case *ssa.MakeClosure:
		n := relFuncName(fn.Fn.(*ssa.Function), f.e.pkg)
		return f.e.cs.ByName[n], n, true
	case *ssa.UnOp:
		switch a := fn.X.(type) {
		case *ssa.FieldAddr:
			st := a.X.Type().Underlying().(*types.Pointer).Elem()
			si := f.e.reg.structInfo(st)
			key := "field:" + si.Fields[a.Field].Comp
			return f.e.cs.ByName[key], key, true
		case *ssa.Alloc:
			if !a.Heap {
				if _, isParam := f.paramVals[a.Comment]; isParam || f.isParamName(a.Comment) {
					key := "param:" + f.name + "." + a.Comment
					return f.e.cs.ByName[key], key, true
				}
			}
		}
	}
	return nil, "", false
}

func (f *FnEnc) isParamName(n string) bool {
	for _, p := range f.fn.Params {
		if p.Name() == n {
			return true
		}
	}
	return false
}

func (f *FnEnc) callModComps(c *ssa.CallCommon, comps map[string]bool, cells map[*ssa.Alloc]bool, all func()) {
	if b, ok := c.Value.(*ssa.Builtin); ok {
		switch b.Name() {
		case "append":
			if st, ok := c.Args[0].Type().Underlying().(*types.Slice); ok && !isByte(st.Elem()) {
				ac := f.e.reg.arrComp(st.Elem())
				comps[ac] = true
				f.lastFullMods[ac] = true
				comps["W"] = true
			}
		}
		return
	}
	ct, key, known := f.staticCallContract(c)
	switch key {
	case "fmt.Errorf", "errors.New":
		comps["W"] = true
		return
	case "fmt.Printf", "fmt.Println", "fmt.Print", "fmt.Sprintf":
		return
	}
	if !known || ct == nil {
		all()
		return
	}
	if ct.Pure {
		return
	}
	if !ct.ModSet {
		all()
		return
	}
	mods, freshOnly := f.e.modSpec(ct.Modifies)
	for _, n := range mods {
		if freshOnly[n] {
			f.lastFreshMods[n] = true
		} else {
			f.lastFullMods[n] = true
		}
		comps[n] = true
	}
}
