package main

import (
	"fmt"
	"strings"
)

// Macro is a prelude define-fun that the engine can inline.
type Macro struct {
	Params []string
	Body   *SX
}

// macroTable parses every define-fun of the generated and contract prelude.
func (e *Eng) macroTable() map[string]*Macro {
	if e.mtab != nil {
		return e.mtab
	}
	e.mtab = map[string]*Macro{}
	txt := e.reg.declHeap() + e.reg.declDeref()
	for _, p := range e.cs.Prelude {
		txt += p.Text + "\n"
	}
	all, err := parseAllSX(basePrelude + txt)
	if err != nil {
		return e.mtab
	}
	for _, x := range all {
		if !x.IsL || len(x.List) != 5 || x.List[0].Atom != "define-fun" || !x.List[2].IsL {
			continue
		}
		m := &Macro{Body: x.List[4]}
		for _, p := range x.List[2].List {
			if p.IsL && len(p.List) == 2 {
				m.Params = append(m.Params, p.List[0].Atom)
			}
		}
		e.mtab[x.List[1].Atom] = m
	}
	return e.mtab
}

// expandStates inlines prelude macros in x wherever that exposes a heap-state marker, and
// replaces (h.COMP @marker) by the component symbol of that state. Markers that remain as
// first-class heap values are replaced by materialised mkHeap terms (via mat).
func (f *FnEnc) expandStates(x *SX, states map[string]*State) *SX {
	mt := f.e.macroTable()
	var hasMarker func(x *SX) bool
	hasMarker = func(x *SX) bool {
		if !x.IsL {
			_, ok := states[x.Atom]
			return ok
		}
		for _, c := range x.List {
			if hasMarker(c) {
				return true
			}
		}
		return false
	}
	var ex func(x *SX, depth int) *SX
	ex = func(x *SX, depth int) *SX {
		if !x.IsL || len(x.List) == 0 {
			return x
		}
		if !hasMarker(x) {
			return x
		}
		head := x.List[0]
		if !head.IsL {
			// selector applied to a state marker
			if strings.HasPrefix(head.Atom, "h.") && len(x.List) == 2 && !x.List[1].IsL {
				if st, ok := states[x.List[1].Atom]; ok {
					comp := strings.TrimPrefix(head.Atom, "h.")
					if c, ok := f.e.consts[comp]; ok {
						return &SX{Atom: c}
					}
					if v, ok := st.comps[comp]; ok {
						return &SX{Atom: v}
					}
				}
			}
			if m, ok := mt[head.Atom]; ok && len(m.Params) == len(x.List)-1 && depth < 40 {
				// inline the macro when one of its arguments (transitively) carries a marker
				f.nsym++
				suffix := fmt.Sprintf("$%d", f.nsym)
				body := renameBound(m.Body, suffix)
				env := map[string]*SX{}
				for i, p := range m.Params {
					env[p] = ex(x.List[i+1], depth+1)
				}
				return ex(substSX(body, env), depth+1)
			}
		}
		out := &SX{IsL: true, List: make([]*SX, len(x.List))}
		for i, c := range x.List {
			out.List[i] = ex(c, depth)
		}
		return out
	}
	return ex(x, 0)
}

// substSX substitutes whole s-expressions for atoms (no binder handling needed: bound
// variables of macro bodies were renamed apart and parameters are never rebound).
func substSX(x *SX, env map[string]*SX) *SX {
	if !x.IsL {
		if v, ok := env[x.Atom]; ok {
			return v
		}
		return x
	}
	out := &SX{IsL: true, List: make([]*SX, len(x.List))}
	for i, c := range x.List {
		out.List[i] = substSX(c, env)
	}
	return out
}

// renameBound renames every variable bound by forall/exists/let inside x by appending suffix.
func renameBound(x *SX, suffix string) *SX {
	var rn func(x *SX, env map[string]string) *SX
	rn = func(x *SX, env map[string]string) *SX {
		if !x.IsL {
			if v, ok := env[x.Atom]; ok {
				return &SX{Atom: v}
			}
			return x
		}
		if len(x.List) >= 3 && !x.List[0].IsL && (x.List[0].Atom == "forall" || x.List[0].Atom == "exists" || x.List[0].Atom == "let") && x.List[1].IsL {
			env2 := map[string]string{}
			for k, v := range env {
				env2[k] = v
			}
			binds := &SX{IsL: true}
			for _, b := range x.List[1].List {
				if b.IsL && len(b.List) == 2 {
					nn := b.List[0].Atom + suffix
					if x.List[0].Atom == "let" {
						binds.List = append(binds.List, &SX{IsL: true, List: []*SX{{Atom: nn}, rn(b.List[1], env)}})
					} else {
						binds.List = append(binds.List, &SX{IsL: true, List: []*SX{{Atom: nn}, b.List[1]}})
					}
					env2[b.List[0].Atom] = nn
				} else {
					binds.List = append(binds.List, b)
				}
			}
			out := &SX{IsL: true, List: []*SX{x.List[0], binds}}
			for _, c := range x.List[2:] {
				out.List = append(out.List, rn(c, env2))
			}
			return out
		}
		out := &SX{IsL: true, List: make([]*SX, len(x.List))}
		for i, c := range x.List {
			out.List[i] = rn(c, env)
		}
		return out
	}
	return rn(x, map[string]string{})
}
