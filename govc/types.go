package main

import (
	"fmt"
	"go/types"
	"sort"
	"strings"
)

// Comp is one heap component: an SMT array (or scalar for globals/ghost counters).
type Comp struct {
	Name  string
	Sort  string // full SMT sort of the component
	Ghost bool
}

// StructInfo describes a Go struct type used as a value or heap object.
type StructInfo struct {
	SortName string
	GoName   string
	T        *types.Struct
	Named    types.Type
	Fields   []FieldInfo
}

type FieldInfo struct {
	Name     string
	Type     types.Type
	Sort     string
	IsStruct bool   // field is itself a struct value (flattened via inner refs on the heap)
	Comp     string // heap component for leaf fields: "<GoName>.<Name>"
	Fid      int    // global field id
}

// TypeReg is the registry of sorts, struct datatypes, heap components and type ids.
type TypeReg struct {
	structs    map[string]*StructInfo // by SortName
	structByT  map[string]*StructInfo // by types.Type string
	structOrd  []*StructInfo
	comps      map[string]*Comp
	compOrd    []string
	tids       map[string]int
	tidOrd     []string
	tidType    map[string]types.Type
	boxSorts   map[string]bool // sorts that need box_/unbox_ functions for Any payloads
	fidNext    int
	fidByComp  map[string]int
	anonN      int
	handleIfcs map[string]bool
	pkgPath    string
	modPath    string
	modelled   map[string]bool
	frozen     bool
}

func (r *TypeReg) freeze() {
	sort.Strings(r.compOrd)
	r.frozen = true
}

func newTypeReg(pkgPath string) *TypeReg {
	return &TypeReg{
		structs:   map[string]*StructInfo{},
		structByT: map[string]*StructInfo{},
		comps:     map[string]*Comp{},
		tids:      map[string]int{},
		tidType:   map[string]types.Type{},
		boxSorts:  map[string]bool{},
		fidByComp: map[string]int{},
		fidNext:   1,
		pkgPath:   pkgPath,
		modelled:  map[string]bool{},
	}
}

func (r *TypeReg) addComp(name, srt string, ghost bool) {
	if _, ok := r.comps[name]; ok {
		return
	}
	if r.frozen {
		panic("heap component " + name + " discovered after the component set was frozen (prescan gap)")
	}
	r.comps[name] = &Comp{Name: name, Sort: srt, Ghost: ghost}
	r.compOrd = append(r.compOrd, name)
}

func isByte(t types.Type) bool {
	b, ok := t.Underlying().(*types.Basic)
	return ok && (b.Kind() == types.Uint8)
}

func sanitize(s string) string {
	var b strings.Builder
	for _, c := range s {
		switch {
		case c >= 'a' && c <= 'z', c >= 'A' && c <= 'Z', c >= '0' && c <= '9', c == '_', c == '.':
			b.WriteRune(c)
		case c == '*':
			b.WriteString("P")
		case c == '[':
			b.WriteString("L")
		case c == ']':
			b.WriteString("J")
		default:
			b.WriteString("_")
		}
	}
	return b.String()
}

func (r *TypeReg) shortTypeName(t types.Type) string {
	s := types.TypeString(t, func(p *types.Package) string {
		if p.Path() == r.pkgPath {
			return ""
		}
		return p.Name()
	})
	return s
}

// sortOf maps a Go type to an SMT sort name.
func (r *TypeReg) sortOf(t types.Type) string {
	switch u := t.Underlying().(type) {
	case *types.Basic:
		switch {
		case u.Info()&types.IsBoolean != 0:
			return "Bool"
		case u.Info()&types.IsInteger != 0:
			return "Int"
		case u.Info()&types.IsString != 0:
			return "Bytes"
		case u.Kind() == types.UnsafePointer:
			return "Int"
		case u.Kind() == types.UntypedNil:
			return "Int"
		case u.Info()&types.IsFloat != 0:
			return "Real"
		}
		return "Int"
	case *types.Pointer:
		return "Int"
	case *types.Slice:
		if isByte(u.Elem()) {
			return "BS"
		}
		return "Slice"
	case *types.Interface:
		return "Any"
	case *types.Struct:
		if r.isOpaqueStruct(t) {
			return "Opaque"
		}
		return r.structInfo(t).SortName
	case *types.Signature:
		return "Int"
	case *types.Map:
		return "Int"
	case *types.Chan:
		return "Int"
	case *types.Array:
		if isByte(u.Elem()) {
			return "Bytes"
		}
		return "Int" // arrays of other element types only exist behind pointers (heap arrays)
	case *types.Tuple:
		return "Tuple"
	}
	return "Int"
}

func (r *TypeReg) zeroOf(t types.Type) string {
	return r.zeroOfSort(r.sortOf(t))
}

// isOpaqueStruct: struct types declared outside the analysed module are not modelled field by
// field (sync.Mutex, reflect.Value, ...) unless explicitly listed with `modelstruct`.
func (r *TypeReg) isOpaqueStruct(t types.Type) bool {
	n, ok := t.(*types.Named)
	if !ok {
		if a, ok := t.(*types.Alias); ok {
			return r.isOpaqueStruct(types.Unalias(a))
		}
		return false
	}
	if n.Obj().Pkg() == nil {
		return false
	}
	pp := n.Obj().Pkg().Path()
	if pp == r.pkgPath || strings.HasPrefix(pp, r.modPath) && r.modPath != "" {
		return false
	}
	if r.modelled[n.Obj().Pkg().Name()+"."+n.Obj().Name()] {
		return false
	}
	return true
}

func (r *TypeReg) zeroOfSort(s string) string {
	switch s {
	case "Opaque":
		return "opaque0"
	case "Bool":
		return "false"
	case "Int":
		return "0"
	case "Real":
		return "0.0"
	case "Bytes":
		return "eps"
	case "BS":
		return "bsnil"
	case "Slice":
		return "slnil"
	case "Any":
		return "anil"
	}
	if si, ok := r.structs[s]; ok {
		parts := []string{"(mk_" + si.SortName}
		for _, f := range si.Fields {
			parts = append(parts, r.zeroOfSort(f.Sort))
		}
		if len(si.Fields) == 0 {
			return "mk_" + si.SortName
		}
		return strings.Join(parts, " ") + ")"
	}
	panic("zeroOfSort: unknown sort " + s)
}

// structInfo returns (registering on first use) the info for struct type t.
func (r *TypeReg) structInfo(t types.Type) *StructInfo {
	key := types.TypeString(t, nil)
	if si, ok := r.structByT[key]; ok {
		return si
	}
	st := t.Underlying().(*types.Struct)
	goName := ""
	if n, ok := t.(*types.Named); ok {
		goName = n.Obj().Name()
		if n.Obj().Pkg() != nil && n.Obj().Pkg().Path() != r.pkgPath {
			goName = n.Obj().Pkg().Name() + "." + goName
		}
	} else if a, ok := t.(*types.Alias); ok {
		goName = a.Obj().Name()
	} else {
		r.anonN++
		goName = fmt.Sprintf("anon%d", r.anonN)
	}
	si := &StructInfo{SortName: "S_" + sanitize(goName), GoName: goName, T: st, Named: t}
	// guard against duplicates of sort name
	if _, dup := r.structs[si.SortName]; dup {
		r.anonN++
		si.SortName = fmt.Sprintf("%s_%d", si.SortName, r.anonN)
	}
	r.structByT[key] = si
	r.structs[si.SortName] = si
	for i := 0; i < st.NumFields(); i++ {
		f := st.Field(i)
		fi := FieldInfo{Name: f.Name(), Type: f.Type()}
		if fi.Name == "_" {
			fi.Name = fmt.Sprintf("_%d", i)
		}
		if _, isS := f.Type().Underlying().(*types.Struct); isS && !r.isOpaqueStruct(f.Type()) {
			fi.IsStruct = true
			fi.Sort = r.structInfo(f.Type()).SortName
		} else {
			fi.Sort = r.sortOf(f.Type())
			r.noteType(f.Type())
		}
		fi.Comp = goName + "." + f.Name()
		fi.Fid = r.fidNext
		r.fidNext++
		r.fidByComp[fi.Comp] = fi.Fid
		si.Fields = append(si.Fields, fi)
	}
	r.structOrd = append(r.structOrd, si)
	return si
}

// registerHeapStruct makes sure the leaf fields of struct type t (as a heap object) have components.
func (r *TypeReg) registerHeapStruct(t types.Type) {
	if r.isOpaqueStruct(t) {
		return
	}
	si := r.structInfo(t)
	for _, f := range si.Fields {
		if f.IsStruct {
			r.registerHeapStruct(f.Type)
		} else {
			r.addComp(f.Comp, "(Array Int "+f.Sort+")", false)
		}
	}
}

// noteType registers the components implied by the existence of type t.
func (r *TypeReg) noteType(t types.Type) {
	switch u := t.Underlying().(type) {
	case *types.Pointer:
		el := u.Elem()
		switch eu := el.Underlying().(type) {
		case *types.Struct:
			r.registerHeapStruct(el)
		case *types.Array:
			if !isByte(eu.Elem()) {
				r.arrComp(eu.Elem())
			} else {
				r.boxComp(el)
			}
		default:
			r.boxComp(el)
			r.noteType(el)
		}
	case *types.Slice:
		if !isByte(u.Elem()) {
			r.arrComp(u.Elem())
			r.noteType(u.Elem())
		}
	case *types.Map:
		r.mapComp(u)
	case *types.Struct:
		if !r.isOpaqueStruct(t) {
			r.structInfo(t)
		}
	case *types.Array:
		r.noteType(u.Elem())
	}
}

func (r *TypeReg) arrComp(elem types.Type) string {
	if _, isS := elem.Underlying().(*types.Struct); isS && !r.isOpaqueStruct(elem) {
		r.structInfo(elem)
	}
	s := r.sortOf(elem)
	name := "Arr." + s
	r.addComp(name, "(Array Int (Array Int "+s+"))", false)
	return name
}

func (r *TypeReg) boxComp(elem types.Type) string {
	if _, isS := elem.Underlying().(*types.Struct); isS {
		if r.isOpaqueStruct(elem) {
			return ""
		}
		r.registerHeapStruct(elem)
		return ""
	}
	s := r.sortOf(elem)
	name := "Box." + s
	r.addComp(name, "(Array Int "+s+")", false)
	return name
}

func (r *TypeReg) mapComp(m *types.Map) (string, string) {
	ks := r.sortOf(m.Key())
	vs := r.sortOf(m.Elem())
	name := "Map." + ks + "." + vs
	r.addComp(name, "(Array Int (Array "+ks+" "+vs+"))", false)
	r.addComp(name+".has", "(Array Int (Array "+ks+" Bool))", false)
	return name, name + ".has"
}

// tid returns the type id used in Any values for dynamic type t.
func (r *TypeReg) tid(t types.Type) int {
	key := types.TypeString(t, nil)
	if id, ok := r.tids[key]; ok {
		return id
	}
	id := len(r.tids) + 1
	r.tids[key] = id
	r.tidOrd = append(r.tidOrd, key)
	r.tidType[key] = t
	return id
}

// comparableType reports whether values of dynamic type t can be compared with == without panic.
func comparableType(t types.Type) bool {
	return types.Comparable(t)
}

// declSorts emits the datatype declarations for all registered struct sorts.
func (r *TypeReg) declStructs() string {
	var b strings.Builder
	// order: dependencies first (structOrd is registration order: inner structs are registered
	// during the outer's field scan, i.e. before the outer is appended).
	for _, si := range r.structOrd {
		if len(si.Fields) == 0 {
			fmt.Fprintf(&b, "(declare-datatypes ((%s 0)) (((mk_%s))))\n", si.SortName, si.SortName)
			continue
		}
		fmt.Fprintf(&b, "(declare-datatypes ((%s 0)) (((mk_%s", si.SortName, si.SortName)
		for _, f := range si.Fields {
			fmt.Fprintf(&b, " (%s.%s %s)", si.SortName, f.Name, f.Sort)
		}
		b.WriteString("))))\n")
	}
	return b.String()
}

// declHeap emits the Heap datatype and accessor functions.
func (r *TypeReg) declHeap() string {
	var b strings.Builder
	names := r.compOrd
	b.WriteString("(declare-datatypes ((Heap 0)) (((mkHeap")
	for _, n := range names {
		fmt.Fprintf(&b, " (h.%s %s)", n, r.comps[n].Sort)
	}
	b.WriteString("))))\n")
	for _, n := range names {
		c := r.comps[n]
		if strings.HasPrefix(n, "G.") {
			fmt.Fprintf(&b, "(define-fun %s ((h Heap)) %s (h.%s h))\n", n, c.Sort, n)
			continue
		}
		if strings.HasPrefix(c.Sort, "(Array Int (Array Int ") {
			el := strings.TrimSuffix(strings.TrimPrefix(c.Sort, "(Array Int (Array Int "), "))")
			fmt.Fprintf(&b, "(define-fun %s.at ((h Heap) (a Int) (i Int)) %s (select (select (h.%s h) a) i))\n", n, el, n)
			continue
		}
		if strings.HasPrefix(c.Sort, "(Array Int (Array ") {
			// maps (keyed by a non-Int sort): the whole component as a function of the heap
			fmt.Fprintf(&b, "(define-fun %s ((h Heap)) %s (h.%s h))\n", n, c.Sort, n)
			continue
		}
		if strings.HasPrefix(c.Sort, "(Array Int ") {
			el := strings.TrimSuffix(strings.TrimPrefix(c.Sort, "(Array Int "), ")")
			fmt.Fprintf(&b, "(define-fun %s ((h Heap) (r Int)) %s (select (h.%s h) r))\n", n, el, n)
		} else if !strings.HasPrefix(c.Sort, "(") {
			fmt.Fprintf(&b, "(define-fun %s ((h Heap)) %s (h.%s h))\n", n, c.Sort, n)
		}
	}
	return b.String()
}

// declDeref emits deref.<Sort> functions: the value a pointer to a location of that sort denotes
// (a heap-allocated cell, or a field inside an object).
func (r *TypeReg) declDeref() string {
	var b strings.Builder
	for _, n := range r.compOrd {
		if !strings.HasPrefix(n, "Box.") {
			continue
		}
		srt := strings.TrimPrefix(n, "Box.")
		t := fmt.Sprintf("(select (h.%s h) p)", n)
		for _, c := range r.compOrd {
			cc := r.comps[c]
			if cc.Ghost || cc.Sort != "(Array Int "+srt+")" {
				continue
			}
			fid, ok := r.fidByComp[c]
			if !ok {
				continue
			}
			t = fmt.Sprintf("(ite (and (< p 0) (= (inner.k p) %d)) (select (h.%s h) (inner.p p)) %s)", fid, c, t)
		}
		fmt.Fprintf(&b, "(define-fun deref.%s ((h Heap) (p Int)) %s %s)\n", srt, srt, t)
	}
	return b.String()
}

func (r *TypeReg) declTids() string {
	var b strings.Builder
	for _, k := range r.tidOrd {
		fmt.Fprintf(&b, "; tid %d = %s\n", r.tids[k], k)
	}
	return b.String()
}

// isStruct reports whether t is a struct type that is modelled field by field.
func (r *TypeReg) isStruct(t types.Type) bool {
	_, ok := t.Underlying().(*types.Struct)
	return ok && !r.isOpaqueStruct(t)
}
