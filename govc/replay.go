package main

// Counterexample replay for the one class of functions where a solver can be made to produce a
// usable model: plain functions whose parameters and results are all scalars (integers, booleans).
//
// A failed obligation of such a function is re-asked WITHOUT the quantified axioms (they are what
// keeps the solvers from ever answering `sat`); a `sat` answer then is only a candidate (it may
// violate a dropped axiom), so it is never reported as such: the candidate inputs are run through
// the REAL function (in-package test injected with `go test -overlay`, nothing written to /repo),
// and the contract clause is evaluated on the real inputs and the real outputs with the full
// prelude. Only if that ground instance of the clause is refuted (or the real call panics) is the
// violation reported with a failing input; otherwise the VIOLATION line keeps its
// `no-failing-input-found` suffix.

import (
	"context"
	"encoding/json"
	"fmt"
	"go/types"
	"os"
	"os/exec"
	"path/filepath"
	"regexp"
	"strings"
	"time"
)

var (
	encByName  = map[string]*FnEnc{}
	prelByFunc = map[string]string{}
	pkgDirOf   = map[string]string{} // function name -> package directory relative to the repo
)

func scalarGoType(t types.Type) string {
	b, ok := t.Underlying().(*types.Basic)
	if !ok {
		return ""
	}
	if b.Info()&types.IsInteger != 0 || b.Kind() == types.Bool {
		if n, ok := t.(*types.Named); ok {
			return n.Obj().Name()
		}
		return b.Name()
	}
	return ""
}

var getValueRe = regexp.MustCompile(`\(([^\s()]+) (\(- [0-9]+\)|[0-9]+|true|false)\)`)

func smtToGo(v string) string {
	v = strings.TrimSpace(v)
	if strings.HasPrefix(v, "(- ") {
		return "-" + strings.TrimSuffix(strings.TrimPrefix(v, "(- "), ")")
	}
	return v
}

func goToSmt(v string) string {
	v = strings.TrimSpace(v)
	if strings.HasPrefix(v, "-") {
		return "(- " + v[1:] + ")"
	}
	return v
}

func stripQuantified(script string) string {
	var b strings.Builder
	for _, l := range strings.SplitAfter(script, "\n") {
		if strings.Contains(l, "(forall ") || strings.Contains(l, "(exists ") {
			continue
		}
		b.WriteString(l)
	}
	return b.String()
}

func runZ3(script string, sec int) string {
	f, err := os.CreateTemp("", "govc-replay-*.smt2")
	if err != nil {
		return ""
	}
	defer os.Remove(f.Name())
	f.WriteString(script)
	f.Close()
	ctx, cancel := context.WithTimeout(context.Background(), time.Duration(sec+2)*time.Second)
	defer cancel()
	out, _ := exec.CommandContext(ctx, "z3-new", fmt.Sprintf("-T:%d", sec), f.Name()).CombinedOutput()
	return string(out)
}

func tryReplay(ob *Obligation, r *SolveResult, rb *strings.Builder, repo string) bool {
	f := encByName[ob.Func]
	if f == nil || f.fn == nil || f.c == nil || ob.Kind != "post" {
		return false
	}
	sig := f.fn.Signature
	if sig.Recv() != nil || f.fn.Parent() != nil || sig.Params().Len() == 0 || sig.Results().Len() == 0 {
		return false
	}
	var pnames, ptypes, psyms []string
	for i := 0; i < sig.Params().Len(); i++ {
		p := sig.Params().At(i)
		gt := scalarGoType(p.Type())
		v, ok := f.params[p.Name()]
		if gt == "" || !ok {
			return false
		}
		pnames = append(pnames, p.Name())
		ptypes = append(ptypes, gt)
		psyms = append(psyms, v.T)
	}
	for i := 0; i < sig.Results().Len(); i++ {
		if scalarGoType(sig.Results().At(i).Type()) == "" {
			return false
		}
	}
	// the clause this obligation instantiates
	base := ob.Label
	var clause *Clause
	for i := range f.c.Ensures {
		if f.c.Ensures[i].Label == base {
			clause = f.c.Ensures[i]
		}
	}
	if clause == nil {
		return false
	}
	prel := prelByFunc[ob.Func]
	// 1. candidate inputs from the quantifier-free weakening of the failed query
	body := f.slice(0, ob.Pos, ob.Block, true)
	cand := stripQuantified(f.e.slimPrelude(prel, body+ob.Goal+ob.At)+body) + fmt.Sprintf("\n(assert %s)\n(assert (not %s))\n(check-sat)\n(get-value (%s))\n", ob.At, ob.Goal, strings.Join(psyms, " "))
	out := runZ3(cand, 10)
	var keep []string
	for _, l := range strings.Split(out, "\n") {
		if !strings.HasPrefix(l, "(error ") { // definitions that used a dropped quantified macro
			keep = append(keep, l)
		}
	}
	fmt.Fprintf(rb, "\n--- counterexample search (query without quantified axioms; a model is only a candidate) ---\n%s\n", firstLines(strings.Join(keep, "\n"), 12))
	isSat := false
	for _, l := range strings.Split(out, "\n") {
		if strings.TrimSpace(l) == "sat" {
			isSat = true
		}
	}
	if !isSat {
		return false
	}
	vals := map[string]string{}
	for _, m := range getValueRe.FindAllStringSubmatch(out, -1) {
		vals[m[1]] = smtToGo(m[2])
	}
	for _, sym := range psyms {
		if _, ok := vals[sym]; !ok {
			return false
		}
	}
	// further candidates: a small grid of boundary values per parameter (the model of the
	// weakened query is blind to the theory axioms, e.g. the recursive layer function)
	tuples := [][]string{}
	first := make([]string, len(psyms))
	for i, sym := range psyms {
		first[i] = vals[sym]
	}
	tuples = append(tuples, first)
	grid := func(gt string) []string {
		switch {
		case gt == "bool":
			return []string{"false", "true"}
		case strings.HasPrefix(gt, "uint"):
			return []string{"0", "1", "2", "3", "4", "6", "9", "16", "27", "255"}
		default:
			return []string{"0", "1", "-1", "2", "-2", "3", "-3", "4", "-4", "6", "-6", "9", "-9", "16", "-27", "127", "-128"}
		}
	}
	var rec func(i int, cur []string)
	rec = func(i int, cur []string) {
		if len(tuples) >= 120 {
			return
		}
		if i == len(psyms) {
			tuples = append(tuples, append([]string(nil), cur...))
			return
		}
		for _, v := range grid(ptypes[i]) {
			rec(i+1, append(cur, v))
		}
	}
	rec(0, nil)
	// keep only candidates that satisfy the function's preconditions (one incremental solver run)
	{
		head := f.slice(0, f.theoryEnd, -1, false)
		var script strings.Builder
		var all strings.Builder
		type item struct{ n int }
		var items []item
		for n, t := range tuples {
			env := map[string]string{}
			for i, pn := range pnames {
				env[pn] = goToSmt(t[i])
			}
			var reqs []string
			okAll := true
			for _, rq := range f.c.Requires {
				if un := f.e.unresolved(rq.Expr, mergeEnv(env, map[string]string{"H": "", "H0": "", "W": "", "W0": ""})); len(un) > 0 {
					okAll = false
					break
				}
				reqs = append(reqs, rq.Expr.subst(env).String())
			}
			if !okAll {
				continue
			}
			conj := "true"
			if len(reqs) > 0 {
				conj = "(and " + strings.Join(reqs, " ") + " true)"
			}
			fmt.Fprintf(&script, "(push)\n(assert (not %s))\n(check-sat)\n(pop)\n", conj)
			all.WriteString(conj)
			items = append(items, item{n})
		}
		// the preconditions of scalar functions are ground arithmetic: no prelude needed (and the
		// incremental mode of the solver gives up on the quantified prelude)
		_ = head
		res := runZ3(script.String(), 30)
		var verdicts []string
		for _, l := range strings.Split(res, "\n") {
			l = strings.TrimSpace(l)
			if l == "sat" || l == "unsat" || l == "unknown" || l == "timeout" {
				verdicts = append(verdicts, l)
			}
		}
		var kept [][]string
		for i, it := range items {
			if i < len(verdicts) && verdicts[i] == "unsat" { // the negated preconditions are refuted: they hold
				kept = append(kept, tuples[it.n])
			}
		}
		fmt.Fprintf(rb, "%d of %d candidate inputs satisfy the preconditions\n", len(kept), len(tuples))
		tuples = kept
		if len(tuples) == 0 {
			return false
		}
	}
	// 2. run the real function on every candidate (one generated in-package test)
	pkgDir := filepath.Join(repo, pkgDirOf[ob.Func])
	pkgName := f.fn.Pkg.Pkg.Name()
	nres := sig.Results().Len()
	var lhs []string
	for i := 0; i < nres; i++ {
		lhs = append(lhs, fmt.Sprintf("r%d", i))
	}
	lit := func(t []string) []string {
		out := make([]string, len(t))
		for i, v := range t {
			if ptypes[i] == "bool" {
				out[i] = v
			} else if strings.HasPrefix(v, "-") && strings.HasPrefix(ptypes[i], "uint") {
				out[i] = ""
			} else {
				out[i] = fmt.Sprintf("%s(%s)", ptypes[i], v)
			}
		}
		return out
	}
	var calls strings.Builder
	for n, t := range tuples {
		a := lit(t)
		bad := false
		for _, x := range a {
			if x == "" {
				bad = true
			}
		}
		if bad {
			continue
		}
		fmt.Fprintf(&calls, "\tfunc() {\n\t\tdefer func() {\n\t\t\tif r := recover(); r != nil {\n\t\t\t\tfmt.Printf(\"REPLAY %d PANIC %%v\\n\", r)\n\t\t\t}\n\t\t}()\n\t\t%s := %s(%s)\n\t\tfmt.Println(\"REPLAY %d RESULT\", %s)\n\t}()\n", n, strings.Join(lhs, ", "), f.fn.Name(), strings.Join(a, ", "), n, strings.Join(lhs, ", "))
	}
	one := func(t []string) string {
		return fmt.Sprintf("package %s\n\nimport (\n\t\"fmt\"\n\t\"testing\"\n)\n\n// generated by govc: the confirmed failing input of obligation %s\nfunc TestGovcReplay(t *testing.T) {\n\t%s := %s(%s)\n\tfmt.Println(\"REPLAY RESULT\", %s)\n}\n", pkgName, ob.Name, strings.Join(lhs, ", "), f.fn.Name(), strings.Join(lit(t), ", "), strings.Join(lhs, ", "))
	}
	src := fmt.Sprintf("package %s\n\nimport (\n\t\"fmt\"\n\t\"testing\"\n)\n\n// generated by govc: runs the candidate counterexamples of obligation %s on the real function\nfunc TestGovcReplay(t *testing.T) {\n%s}\n", pkgName, ob.Name, calls.String())
	tmpd, err := os.MkdirTemp("", "govc-replay")
	if err != nil {
		return false
	}
	defer os.RemoveAll(tmpd)
	testFile := filepath.Join(tmpd, "replay_test.go")
	os.WriteFile(testFile, []byte(src), 0644)
	ov, _ := json.Marshal(map[string]interface{}{"Replace": map[string]string{filepath.Join(pkgDir, "zz_govc_replay_test.go"): testFile}})
	ovFile := filepath.Join(tmpd, "overlay.json")
	os.WriteFile(ovFile, ov, 0644)
	ctx, cancel := context.WithTimeout(context.Background(), 180*time.Second)
	defer cancel()
	cmd := exec.CommandContext(ctx, "go", "test", "-tags", "verif", "-overlay", ovFile, "-vet=off", "-count=1", "-timeout", "60s", "-run", "^TestGovcReplay$", "-v", ".")
	cmd.Dir = pkgDir
	cmd.Env = append(os.Environ(), "GOFLAGS=-mod=mod", "GOPROXY=off", "GOSUMDB=off", "GOTOOLCHAIN=local")
	tout, _ := cmd.CombinedOutput()
	results := map[int][]string{}
	panics := map[int]string{}
	for _, m := range regexp.MustCompile(`REPLAY (\d+) RESULT (.*)`).FindAllStringSubmatch(string(tout), -1) {
		var n int
		fmt.Sscanf(m[1], "%d", &n)
		results[n] = strings.Fields(m[2])
	}
	for _, m := range regexp.MustCompile(`REPLAY (\d+) PANIC (.*)`).FindAllStringSubmatch(string(tout), -1) {
		var n int
		fmt.Sscanf(m[1], "%d", &n)
		panics[n] = m[2]
	}
	fmt.Fprintf(rb, "\n--- replay on the real code: %d candidate inputs (the model first, then a grid of boundary values), %d ran ---\n", len(tuples), len(results)+len(panics))
	if len(results)+len(panics) == 0 {
		fmt.Fprintf(rb, "the replay test did not run:\n%s\n", firstLines(string(tout), 12))
		return false
	}
	// 3. per candidate: the requires hold and the ensures clause is false on the real outputs
	head := f.slice(0, f.theoryEnd, -1, false)
	ground := func(cl *Clause, env map[string]string) (string, bool) {
		if un := f.e.unresolved(cl.Expr, mergeEnv(env, map[string]string{"H": "", "H0": "", "W": "", "W0": ""})); len(un) > 0 {
			return "", false
		}
		return cl.Expr.subst(env).String(), true
	}
	decide := func(formula string) string { // "true", "false" or "?"
		pre := f.e.slimPrelude(prel, head+formula) + head
		has := func(res, w string) bool {
			for _, l := range strings.Split(res, "\n") {
				if strings.TrimSpace(l) == w {
					return true
				}
			}
			return false
		}
		if has(runZ3(pre+fmt.Sprintf("\n(assert %s)\n(check-sat)\n", formula), 5), "unsat") {
			return "false"
		}
		if has(runZ3(pre+fmt.Sprintf("\n(assert (not %s))\n(check-sat)\n", formula), 5), "unsat") {
			return "true"
		}
		return "?"
	}
	tried := 0
	for n, t := range tuples {
		outs, ran := results[n]
		pmsg, panicked := panics[n]
		if !ran && !panicked {
			continue
		}
		env := map[string]string{}
		for i, pn := range pnames {
			env[pn] = goToSmt(t[i])
		}
		tried++
		call := fmt.Sprintf("%s(%s)", f.fn.Name(), strings.Join(lit(t), ", "))
		if panicked {
			fmt.Fprintf(rb, "\nFAILING INPUT CONFIRMED: %s satisfies the preconditions and the real function panics: %s\nreplay: put the generated test below into the package and run go test -run TestGovcReplay\n%s\n", call, pmsg, one(t))
			return true
		}
		if len(outs) != nres {
			continue
		}
		for i, o := range outs {
			env[fmt.Sprintf("result%d", i)] = goToSmt(o)
			if rn := sig.Results().At(i).Name(); rn != "" && rn != "_" {
				if _, clash := env[rn]; !clash {
					env[rn] = goToSmt(o)
				}
			}
		}
		if nres == 1 {
			env["result"] = goToSmt(outs[0])
		}
		g, ok := ground(clause, env)
		if !ok {
			fmt.Fprintf(rb, "the clause mentions names that scalar inputs and outputs do not bind: it cannot be evaluated\n")
			return false
		}
		verdict := decide(g)
		if n == 0 || verdict == "false" {
			fmt.Fprintf(rb, "candidate %d: %s = %s; clause instance %s is %s\n", n, call, strings.Join(outs, ", "), g, verdict)
		}
		if verdict == "false" {
			kind := "a grid value"
			if strings.Join(t, ",") == strings.Join(first, ",") {
				kind = "the solver's model"
			}
			fmt.Fprintf(rb, "\nFAILING INPUT CONFIRMED (%s): %s returns %s, and the contract clause `%s` is false for these values\nreplay: put the generated test below into the package and run go test -run TestGovcReplay\n%s\n", kind, call, strings.Join(outs, ", "), clause.Raw, one(t))
			return true
		}
		if tried >= 60 {
			break
		}
	}
	fmt.Fprintf(rb, "no candidate was confirmed (%d candidates satisfied the preconditions and were evaluated)\n", tried)
	return false
}
