package main

import (
	"fmt"
	"go/token"
	"go/types"
	"os"
	"sort"
	"strings"

	"golang.org/x/tools/go/ssa"
)

func newFnEnc(e *Eng, fn *ssa.Function, c *Contract, want func([]string) bool) *FnEnc {
	f := &FnEnc{e: e, fn: fn, name: relFuncName(fn, e.pkg), c: c, want: want,
		vals: map[ssa.Value]Val{}, addrs: map[ssa.Value]*Addr{}, provs: map[ssa.Value]Prov{}, clos: map[ssa.Value]*ssa.MakeClosure{},
		exit: map[*ssa.BasicBlock]*State{}, edgeCond: map[[2]int]string{}, params: map[string]Val{}, cellName: map[*ssa.Alloc]string{},
		loops: map[*ssa.BasicBlock]*loopInfo{}, kindN: map[string]int{}, callN: map[string]int{}, trustedUsed: map[string]bool{},
		tuples: map[ssa.Value][]Val{}, tupleAddrs: map[ssa.Value][]*Addr{}, arrLens: map[string]int64{}, cellName2: map[*ssa.Alloc]string{},
		byteOrigin: map[ssa.Value]*Addr{}, smallArr: map[ssa.Value]smallArrInfo{}, cellClos: map[*ssa.Alloc]*ssa.MakeClosure{},
		cellAddr: map[*ssa.Alloc]*Addr{}, cellProv: map[*ssa.Alloc]Prov{}, cellFnKey: map[*ssa.Alloc]string{}, fnKeys: map[ssa.Value]string{},
		storeCount: map[*ssa.Alloc]int{}, paramVals: map[string]ssa.Value{}, unmodelled: map[string]bool{}}
	return f
}

func (f *FnEnc) findLoops() {
	fn := f.fn
	for _, b := range fn.Blocks {
		for _, s := range b.Succs {
			if s.Dominates(b) {
				li := f.loops[s]
				if li == nil {
					li = &loopInfo{head: s, blocks: map[*ssa.BasicBlock]bool{s: true}}
					f.loops[s] = li
					f.loopOrd = append(f.loopOrd, s)
				}
				li.backs = append(li.backs, b)
				// natural loop body: nodes reaching b without passing through s
				stack := []*ssa.BasicBlock{b}
				for len(stack) > 0 {
					n := stack[len(stack)-1]
					stack = stack[:len(stack)-1]
					if li.blocks[n] {
						continue
					}
					li.blocks[n] = true
					for _, p := range n.Preds {
						stack = append(stack, p)
					}
				}
			}
		}
	}
	sort.Slice(f.loopOrd, func(i, j int) bool { return f.loopOrd[i].Index < f.loopOrd[j].Index })
	for i, h := range f.loopOrd {
		f.loops[h].ord = i + 1
	}
}

func (f *FnEnc) isBackEdge(from, to *ssa.BasicBlock) bool {
	return to.Dominates(from)
}

// topo returns the blocks in a topological order of the CFG without back edges.
func (f *FnEnc) topo() []*ssa.BasicBlock {
	fn := f.fn
	indeg := map[*ssa.BasicBlock]int{}
	reach := map[*ssa.BasicBlock]bool{}
	var dfs func(b *ssa.BasicBlock)
	dfs = func(b *ssa.BasicBlock) {
		if reach[b] {
			return
		}
		reach[b] = true
		for _, s := range b.Succs {
			if !f.isBackEdge(b, s) {
				dfs(s)
			}
		}
	}
	dfs(fn.Blocks[0])
	for b := range reach {
		for _, s := range b.Succs {
			if !f.isBackEdge(b, s) {
				indeg[s]++
			}
		}
	}
	var order []*ssa.BasicBlock
	ready := []*ssa.BasicBlock{fn.Blocks[0]}
	for len(ready) > 0 {
		sort.Slice(ready, func(i, j int) bool { return ready[i].Index < ready[j].Index })
		b := ready[0]
		ready = ready[1:]
		order = append(order, b)
		for _, s := range b.Succs {
			if f.isBackEdge(b, s) {
				continue
			}
			indeg[s]--
			if indeg[s] == 0 {
				ready = append(ready, s)
			}
		}
	}
	return order
}

// modSet computes the cells and heap components possibly modified inside the given blocks.
func (f *FnEnc) modSet(blocks map[*ssa.BasicBlock]bool) (map[*ssa.Alloc]bool, map[string]bool) {
	cells := map[*ssa.Alloc]bool{}
	comps := map[string]bool{}
	// freshMods: components changed only at references allocated during the blocks (allocation
	// zeroing and callees with @fresh frames); fullMods: everything else
	f.lastFreshMods = map[string]bool{}
	f.lastFullMods = map[string]bool{}
	f.lastTargets = map[string][]ssa.Value{}
	defer func() {
		for c := range comps {
			if !f.lastFreshMods[c] && len(f.lastTargets[c]) == 0 {
				f.lastFullMods[c] = true
			}
		}
	}()
	all := func() {
		if os.Getenv("GOVC_DEBUG_REL") != "" {
			fmt.Fprintf(os.Stderr, "modSet(%s): a callee without known frame makes the loop havoc everything\n", f.name)
		}
		for _, n := range f.e.reg.compOrd {
			comps[n] = true
		}
	}
	var cellOf func(v ssa.Value) *ssa.Alloc
	cellOf = func(v ssa.Value) *ssa.Alloc {
		switch x := v.(type) {
		case *ssa.Alloc:
			if !x.Heap {
				return x
			}
		case *ssa.FieldAddr:
			return cellOf(x.X)
		}
		return nil
	}
	for b := range blocks {
		for _, in := range b.Instrs {
			switch x := in.(type) {
			case *ssa.Alloc:
				if x.Heap {
					comps["W"] = true
					el := x.Type().(*types.Pointer).Elem()
					tmp := map[string]bool{}
					f.addTypeComps(el, tmp)
					for c := range tmp {
						f.lastFreshMods[c] = true
						comps[c] = true
					}
				} else {
					cells[x] = true
				}
			case *ssa.Store:
				if c := cellOf(x.Addr); c != nil {
					cells[c] = true
				} else {
					tmp := map[string]bool{}
					f.addStoreComps(x.Addr, tmp)
					root := heapAllocRoot(x.Addr)
					for c := range tmp {
						comps[c] = true
						if root != nil && !blocks[root.Block()] && strings.HasPrefix(f.e.reg.comps[c].Sort, "(Array Int ") && !strings.HasPrefix(c, "Arr.") {
							// a field store into an object allocated by this function before the loop
							f.lastTargets[c] = append(f.lastTargets[c], root)
						} else {
							f.lastFullMods[c] = true
						}
					}
				}
			case *ssa.MakeSlice:
				comps["W"] = true
				st := x.Type().Underlying().(*types.Slice)
				if !isByte(st.Elem()) {
					comps[f.e.reg.arrComp(st.Elem())] = true
				}
			case *ssa.MakeInterface:
				if f.e.reg.isStruct(x.X.Type()) {
					comps["W"] = true
					comps["Box."+f.e.reg.sortOf(x.X.Type())] = true
				}
			case *ssa.MakeMap, *ssa.MakeChan:
				comps["W"] = true
				for _, n := range f.e.reg.compOrd {
					if strings.HasPrefix(n, "Map.") {
						comps[n] = true
					}
				}
			case *ssa.MapUpdate:
				mt := x.Map.Type().Underlying().(*types.Map)
				mc, hc := f.e.reg.mapComp(mt)
				comps[mc] = true
				comps[hc] = true
			case *ssa.Call:
				f.callModComps(&x.Call, comps, cells, all)
			case *ssa.Go:
				// the spawned body is verified on its own; its effects are not attributed to the spawner
			case *ssa.Defer:
				f.callModComps(&x.Call, comps, cells, all)
			case *ssa.Send:
				if ct := f.e.cs.ByName["chan.send"]; ct != nil && !ct.Pure {
					for _, n := range f.e.compsMatching(ct.Modifies) {
						comps[n] = true
						f.lastFullMods[n] = true
					}
				}
			}
		}
	}
	return cells, comps
}

func (f *FnEnc) addTypeComps(t types.Type, comps map[string]bool) {
	switch u := t.Underlying().(type) {
	case *types.Struct:
		si := f.e.reg.structInfo(t)
		for _, fi := range si.Fields {
			if fi.IsStruct {
				f.addTypeComps(fi.Type, comps)
			} else {
				comps[fi.Comp] = true
			}
		}
		for _, g := range f.e.cs.Ghost {
			if strings.HasPrefix(g.Comp, si.GoName+".") {
				comps[g.Comp] = true
			}
		}
	case *types.Array:
		if !isByte(u.Elem()) {
			comps[f.e.reg.arrComp(u.Elem())] = true
		} else {
			comps[f.e.reg.boxComp(t)] = true
		}
	default:
		comps["Box."+f.e.reg.sortOf(t)] = true
	}
}

func (f *FnEnc) addStoreComps(addr ssa.Value, comps map[string]bool) {
	switch x := addr.(type) {
	case *ssa.Alloc:
		if x.Heap {
			f.addTypeComps(x.Type().(*types.Pointer).Elem(), comps)
		}
		return
	case *ssa.FreeVar:
		if pt, ok := x.Type().Underlying().(*types.Pointer); ok {
			f.addTypeComps(pt.Elem(), comps)
			return
		}
	case *ssa.FieldAddr:
		st := x.X.Type().Underlying().(*types.Pointer).Elem()
		si := f.e.reg.structInfo(st)
		fi := si.Fields[x.Field]
		// the base may be an element address (struct in slice) -> array component
		if base := rootIndexAddr(x.X); base != nil {
			comps[f.arrCompOfIndexAddr(base)] = true
			return
		}
		if fi.IsStruct {
			f.addTypeComps(fi.Type, comps)
		} else {
			comps[fi.Comp] = true
		}
	case *ssa.IndexAddr:
		comps[f.arrCompOfIndexAddr(x)] = true
	case *ssa.Global:
		name := "G." + x.Name()
		if x.Pkg != f.e.pkg {
			name = "G." + x.Pkg.Pkg.Name() + "." + x.Name()
		}
		comps[name] = true
	default:
		// store through a first-class pointer
		pt := addr.Type().Underlying().(*types.Pointer)
		el := pt.Elem()
		if f.e.reg.isStruct(el) {
			if f.e.isElemPtrType(el) {
				comps[f.e.reg.arrComp(el)] = true
			} else {
				f.addTypeComps(el, comps)
			}
			return
		}
		comps["Box."+f.e.reg.sortOf(el)] = true
		for _, c := range f.dynCandidates(el) {
			comps[c] = true
		}
	}
}

// heapAllocRoot returns the heap allocation a field address is rooted in (x.f, x.g.f), if any.
func heapAllocRoot(v ssa.Value) *ssa.Alloc {
	switch x := v.(type) {
	case *ssa.FieldAddr:
		if a, ok := x.X.(*ssa.Alloc); ok && a.Heap {
			if x.Field == 0 || true {
				return a
			}
		}
		if fa, ok := x.X.(*ssa.FieldAddr); ok && fa.Field == 0 {
			// embedded first field shares the object's reference
			if a, ok := fa.X.(*ssa.Alloc); ok && a.Heap {
				return a
			}
		}
	}
	return nil
}

func rootIndexAddr(v ssa.Value) *ssa.IndexAddr {
	switch x := v.(type) {
	case *ssa.IndexAddr:
		return x
	case *ssa.FieldAddr:
		return rootIndexAddr(x.X)
	}
	return nil
}

func (f *FnEnc) arrCompOfIndexAddr(x *ssa.IndexAddr) string {
	switch xt := x.X.Type().Underlying().(type) {
	case *types.Slice:
		return f.e.reg.arrComp(xt.Elem())
	case *types.Pointer:
		arr := xt.Elem().Underlying().(*types.Array)
		return f.e.reg.arrComp(arr.Elem())
	}
	return "Arr.Any"
}

// encode runs the whole function encoding.
func (f *FnEnc) encode() {
	fn := f.fn
	if len(fn.Blocks) == 0 {
		f.fail("function has no body")
		return
	}
	f.findLoops()
	if f.c != nil {
		// an invariant written for a loop the function no longer has: the contract does not
		// describe this body any more (undecided, not a verdict)
		for _, inv := range f.c.Invs {
			if inv.Loop > len(f.loopOrd) {
				f.fail("contract has an invariant (%s) for loop %d, the function has %d loop(s): the contract is out of date for this body", inv.Label, inv.Loop, len(f.loopOrd))
				return
			}
		}
	}
	// count stores per cell for static propagation
	for _, b := range fn.Blocks {
		for _, in := range b.Instrs {
			if s, ok := in.(*ssa.Store); ok {
				if a, ok := s.Addr.(*ssa.Alloc); ok {
					f.storeCount[a]++
				}
			}
		}
	}
	// entry state
	st := &State{comps: map[string]string{}, cells: map[*ssa.Alloc]Val{}, at: "true"}
	f.st = st
	for _, n := range f.e.reg.compOrd {
		if _, ok := f.e.consts[n]; ok {
			continue
		}
		st.comps[n] = f.fresh(n+"@0", f.e.reg.comps[n].Sort)
	}
	var uses []string
	if f.c != nil {
		uses = f.c.Uses
	}
	f.theoryStart = f.out.Len()
	f.out.WriteString(f.e.lemmaAxioms(uses))
	f.theoryEnd = f.out.Len()
	f.emit("(assert (>= %s 0))", st.comps["W"])
	f.relevant = f.relevantComps()
	for _, n := range f.e.reg.compOrd {
		if c, ok := st.comps[n]; ok && f.relevant[n] {
			if wf := f.heapWF(n, c, st.comps["W"]); wf != "" {
				f.emit("(assert %s)", wf)
			}
		}
	}
	f.entry = st.clone()
	for _, p := range fn.Params {
		s := f.e.reg.sortOf(p.Type())
		c := f.fresh("p."+p.Name(), s)
		f.vals[p] = Val{c, s}
		f.params[p.Name()] = Val{c, s}
		f.paramVals[p.Name()] = p
		if tf := f.typeFacts(p.Type(), c); tf != "true" {
			f.emit("(assert %s)", tf)
		}
		f.fnKeys[p] = "param:" + p.Name()
		if f.c != nil && hasTag(f.c.BoxPtr, p.Name()) {
			if pt, ok := p.Type().Underlying().(*types.Pointer); ok {
				f.emit("(assert (> %s 0)) ; boxptr %s", c, p.Name())
				f.addrs[p] = &Addr{Kind: akBox, Ref: c, Comp: "Box." + f.e.reg.sortOf(pt.Elem()), Typ: pt.Elem()}
			}
		}
	}
	for _, fv := range fn.FreeVars {
		s := f.e.reg.sortOf(fv.Type())
		c := f.fresh("fv."+fv.Name(), s)
		f.vals[fv] = Val{c, s}
		f.params[fv.Name()] = Val{c, s}
		if tf := f.typeFacts(fv.Type(), c); tf != "true" {
			f.emit("(assert %s)", tf)
		}
		f.emit("(assert (> %s 0))", c)
		if pt, ok := fv.Type().Underlying().(*types.Pointer); ok {
			el := pt.Elem()
			if f.e.reg.isStruct(el) {
				f.addrs[fv] = &Addr{Kind: akObj, Ref: c, Typ: el}
			} else if _, isS := el.Underlying().(*types.Struct); !isS {
				f.addrs[fv] = &Addr{Kind: akBox, Ref: c, Comp: "Box." + f.e.reg.sortOf(el), Typ: el}
			}
		}
	}
	if fn.Signature.Recv() != nil && len(fn.Params) > 0 {
		f.selfRef = f.vals[fn.Params[0]].T
	}
	// preconditions
	if f.c != nil {
		for _, r := range f.c.Requires {
			if un := f.e.unresolved(r.Expr, f.baseEnv(f.st)); len(un) > 0 {
				f.fail("requires %s refers to unknown name(s) %v", r.Label, un)
				return
			}
			t := f.evalClause(r.Expr, f.baseEnv(f.st))
			f.emit("(assert %s) ; requires %s", t, r.Label)
			f.assumed = append(f.assumed, "requires "+r.Label)
		}
		// vacuity guard: the preconditions must be satisfiable
		f.obls = append(f.obls, &Obligation{Func: f.name, Kind: "cover", Label: "pre", Name: f.name + "/cover/pre", Tags: f.c.Tags, Pos: f.out.Len(), Block: -1, At: "true", Goal: "true", Cover: true, Src: f.c.Src})
	}
	order := f.topo()
	for _, b := range order {
		f.block(b)
		if f.failed != nil {
			return
		}
	}
}

// block encodes one basic block.
func (f *FnEnc) block(b *ssa.BasicBlock) {
	f.curBlock = b
	f.curInstr = nil
	f.segs = append(f.segs, seg{f.out.Len(), b.Index})
	// entry state
	var fpreds []*ssa.BasicBlock
	for _, p := range b.Preds {
		if !f.isBackEdge(p, b) {
			if _, ok := f.exit[p]; ok {
				fpreds = append(fpreds, p)
			}
		}
	}
	if b.Index == 0 {
		// f.st is the entry state already
	} else {
		if len(fpreds) == 0 {
			// unreachable block
			f.st = &State{comps: f.entry.comps, cells: map[*ssa.Alloc]Val{}, at: "false"}
		} else {
			f.st = f.mergeStates(b, fpreds)
		}
	}
	if li, ok := f.loops[b]; ok {
		f.loopHead(li)
	}
	for _, in := range b.Instrs {
		f.instr(in)
		if f.failed != nil {
			return
		}
	}
	// terminator: edge conditions
	f.curInstr = nil
	at := f.st.at
	if len(b.Instrs) > 0 {
		switch t := b.Instrs[len(b.Instrs)-1].(type) {
		case *ssa.If:
			c := f.val(t.Cond).T
			f.edgeCond[[2]int{b.Index, b.Succs[0].Index}] = f.def(fmt.Sprintf("e%d_%d", b.Index, b.Succs[0].Index), "Bool", fmt.Sprintf("(and %s %s)", at, c))
			f.edgeCond[[2]int{b.Index, b.Succs[1].Index}] = f.def(fmt.Sprintf("e%d_%d", b.Index, b.Succs[1].Index), "Bool", fmt.Sprintf("(and %s (not %s))", at, c))
		case *ssa.Jump:
			f.edgeCond[[2]int{b.Index, b.Succs[0].Index}] = at
		}
	}
	f.exit[b] = f.st
	// back edges: invariant preservation
	for _, s := range b.Succs {
		if f.isBackEdge(b, s) {
			li := f.loops[s]
			saved := f.st
			st := f.st.clone()
			st.at = f.edgeCond[[2]int{b.Index, s.Index}]
			f.st = st
			f.checkInvariants(li, "inv-step")
			f.st = saved
		}
	}
}

func (f *FnEnc) mergeStates(b *ssa.BasicBlock, preds []*ssa.BasicBlock) *State {
	if len(preds) == 1 {
		st := f.exit[preds[0]].clone()
		st.at = f.edgeCond[[2]int{preds[0].Index, b.Index}]
		return st
	}
	st := &State{comps: map[string]string{}, cells: map[*ssa.Alloc]Val{}}
	var ats []string
	for _, p := range preds {
		ats = append(ats, f.edgeCond[[2]int{p.Index, b.Index}])
	}
	st.at = f.def(fmt.Sprintf("at%d", b.Index), "Bool", "(or "+strings.Join(ats, " ")+")")
	// components
	for _, n := range f.e.reg.compOrd {
		if _, ok := f.e.consts[n]; ok {
			continue
		}
		same := true
		first := f.exit[preds[0]].comps[n]
		for _, p := range preds[1:] {
			if f.exit[p].comps[n] != first {
				same = false
			}
		}
		if same {
			st.comps[n] = first
			continue
		}
		t := f.exit[preds[len(preds)-1]].comps[n]
		for i := len(preds) - 2; i >= 0; i-- {
			t = fmt.Sprintf("(ite %s %s %s)", ats[i], f.exit[preds[i]].comps[n], t)
		}
		st.comps[n] = f.def(n, f.e.reg.comps[n].Sort, t)
	}
	// cells: those present in every predecessor
	cellSet := map[*ssa.Alloc]bool{}
	for c := range f.exit[preds[0]].cells {
		cellSet[c] = true
	}
	for _, c := range sortedCells(cellSet) {
		first, ok0 := f.exit[preds[0]].cells[c]
		same := ok0
		all := true
		for _, p := range preds[1:] {
			v, ok := f.exit[p].cells[c]
			if !ok {
				all = false
				break
			}
			if v.T != first.T {
				same = false
			}
		}
		if !all {
			continue
		}
		if same {
			st.cells[c] = first
			continue
		}
		t := f.exit[preds[len(preds)-1]].cells[c].T
		for i := len(preds) - 2; i >= 0; i-- {
			t = fmt.Sprintf("(ite %s %s %s)", ats[i], f.exit[preds[i]].cells[c].T, t)
		}
		st.cells[c] = Val{f.def(f.cellSym(c), first.S, t), first.S}
	}
	return st
}

// loopHead havocs what the loop modifies and assumes the invariants.
func (f *FnEnc) loopHead(li *loopInfo) {
	// inv-init at the merged pre-state
	f.checkInvariants(li, "inv-init")
	cells, comps := f.modSet(li.blocks)
	freshOnly := map[string]bool{}
	for c := range f.lastFreshMods {
		if !f.lastFullMods[c] && len(f.lastTargets[c]) == 0 {
			freshOnly[c] = true
		}
	}
	fullMods := map[string]bool{}
	for c := range f.lastFullMods {
		fullMods[c] = true
	}
	targets := map[string][]ssa.Value{}
	for c, t := range f.lastTargets {
		targets[c] = t
	}
	if f.c != nil {
		if extra, ok := f.c.LoopMods[li.ord]; ok {
			for _, n := range f.e.compsMatching(extra) {
				comps[n] = true
			}
		}
	}
	pre := f.st
	st := pre.clone()
	for _, n := range f.e.reg.compOrd {
		if comps[n] {
			if _, ok := f.e.consts[n]; ok {
				continue
			}
			st.comps[n] = f.fresh(n+"@L", f.e.reg.comps[n].Sort)
		}
	}
	f.st = st
	if comps["W"] {
		f.assume(fmt.Sprintf("(>= %s %s)", st.comps["W"], pre.comps["W"]))
	}
	for _, n := range f.e.reg.compOrd {
		// components the loop changes only at freshly allocated references keep their old part
		if comps[n] && freshOnly[n] && st.comps[n] != pre.comps[n] && strings.HasPrefix(f.e.reg.comps[n].Sort, "(Array Int ") {
			f.assume(frameFact(st.comps[n], pre.comps[n], pre.comps["W"]))
		} else if comps[n] && !fullMods[n] && len(targets[n]) > 0 && st.comps[n] != pre.comps[n] {
			// only fields of objects this function allocated before the loop are stored to
			var excl []string
			ok := true
			for _, tv := range targets[n] {
				v, has := f.vals[tv]
				if !has {
					ok = false
					break
				}
				excl = append(excl, fmt.Sprintf("(not (= r %s))", v.T))
			}
			if ok {
				f.assume(fmt.Sprintf("(forall ((r Int)) (! (=> (and (<= r %s) %s) (= (select %s r) (select %s r))) :pattern ((select %s r))))", pre.comps["W"], strings.Join(excl, " "), st.comps[n], pre.comps[n], st.comps[n]))
			}
		}
	}
	for _, n := range f.e.reg.compOrd {
		if comps[n] && st.comps[n] != pre.comps[n] && f.relevant[n] {
			if wf := f.heapWF(n, st.comps[n], st.comps["W"]); wf != "" {
				f.assume(wf)
			}
		}
	}
	for _, c := range sortedCells(cells) {
		if v, ok := pre.cells[c]; ok {
			nv := f.fresh(f.cellSym(c)+"@L", v.S)
			st.cells[c] = Val{nv, v.S}
			ct := c.Type().(*types.Pointer).Elem()
			if tf := f.typeFacts(ct, nv); tf != "true" {
				f.assume(tf)
			}
		}
	}
	li.hstate = st
	if f.c != nil {
		for _, inv := range f.c.Invs {
			if inv.Loop != li.ord {
				continue
			}
			if len(f.e.unresolved(inv.Expr, f.baseEnv(f.st))) > 0 {
				continue
			}
			t := f.evalClause(inv.Expr, f.baseEnv(f.st))
			f.assume(t)
		}
	}
}

func (f *FnEnc) checkInvariants(li *loopInfo, kind string) {
	if f.c == nil {
		return
	}
	for _, inv := range f.c.Invs {
		if inv.Loop != li.ord {
			continue
		}
		tags := inv.Tags
		if len(tags) == 0 {
			tags = f.c.Tags
		}
		if !f.wantTags(tags) {
			continue
		}
		t := f.evalClause(inv.Expr, f.baseEnv(f.st))
		f.obligeNoAssume(kind, fmt.Sprintf("loop%d.%s", li.ord, inv.Label), tags, t, inv.Src)
	}
}

func (f *FnEnc) obligeNoAssume(kind, label string, tags []string, goal, src string) {
	name := fmt.Sprintf("%s/%s/%s", f.name, kind, label)
	f.kindN[kind+"/"+label]++
	if n := f.kindN[kind+"/"+label]; n > 1 {
		name = fmt.Sprintf("%s#%d", name, n)
	}
	f.obls = append(f.obls, &Obligation{Func: f.name, Kind: kind, Label: label, Name: name, Tags: tags, Pos: f.out.Len(), Block: f.curBlockIdx(), At: f.st.at, Goal: goal, Src: src})
}

// checkPost emits the postcondition and frame obligations at a return.
func (f *FnEnc) checkPost(res []Val) {
	if f.c == nil {
		return
	}
	env := f.baseEnv(f.st)
	f.bindResults(env, f.fn.Signature.Results(), res, f.fn)
	for _, en := range f.c.Ensures {
		tags := en.Tags
		if len(tags) == 0 {
			tags = f.c.Tags
		}
		if !f.wantTags(tags) {
			continue
		}
		t := f.evalClause(en.Expr, env)
		f.obligeNoAssume("post", en.Label, tags, t, en.Src)
	}
	// frame: components not listed in modifies must be unchanged
	if f.c.ModSet && f.wantTags(f.c.Tags) {
		allowed := map[string]bool{}
		mods, freshOnly := f.e.modSpec(f.c.Modifies)
		for _, n := range mods {
			allowed[n] = true
		}
		var bad []string
		for _, n := range f.e.reg.compOrd {
			if _, ok := f.e.consts[n]; ok {
				continue
			}
			if freshOnly[n] && f.st.comps[n] != f.entry.comps[n] {
				f.obligeNoAssume("frame", "fresh."+n, f.c.Tags, frameFact(f.st.comps[n], f.entry.comps[n], f.entry.comps["W"]), f.c.Src)
			}
			if allowed[n] || f.st.comps[n] == f.entry.comps[n] {
				continue
			}
			if n == "W" {
				continue
			}
			bad = append(bad, fmt.Sprintf("(= %s %s)", f.st.comps[n], f.entry.comps[n]))
		}
		if len(bad) > 0 {
			f.obligeNoAssume("frame", "modifies", f.c.Tags, "(and "+strings.Join(bad, " ")+")", f.c.Src)
		}
	}
}

// bindResults binds result names in env.
func (f *FnEnc) bindResults(env map[string]string, results *types.Tuple, res []Val, fn *ssa.Function) {
	for i, r := range res {
		env[fmt.Sprintf("result%d", i)] = r.T
		if results != nil && i < results.Len() {
			if n := results.At(i).Name(); n != "" && n != "_" {
				env[n+"!"] = r.T
				if _, clash := f.params[n]; !clash || fn != f.fn {
					env[n] = r.T
				}
			}
		}
	}
	if len(res) == 1 {
		env["result"] = res[0].T
	}
	if n := len(res); n > 0 && res[n-1].S == "Any" {
		if results != nil && isErrorType(results.At(n-1).Type()) {
			env["err"] = res[n-1].T
		}
	}
}

func isErrorType(t types.Type) bool {
	return types.Identical(t, types.Universe.Lookup("error").Type())
}

// relevantComps: the heap components the function reads or writes, or that its own contract or
// the contracts of its callees mention. Well-formedness facts are only stated for these.
func (f *FnEnc) relevantComps() map[string]bool {
	out := map[string]bool{"W": true}
	all := map[*ssa.BasicBlock]bool{}
	for _, b := range f.fn.Blocks {
		all[b] = true
	}
	_, mods := f.modSetQuiet(all)
	for c := range mods {
		out[c] = true
	}
	at := map[string]bool{}
	contractAtoms(f.c, at)
	for _, b := range f.fn.Blocks {
		for _, in := range b.Instrs {
			switch x := in.(type) {
			case *ssa.UnOp:
				if x.Op == token.MUL {
					if a, ok := x.X.(*ssa.Alloc); ok && !a.Heap {
						continue // a local cell
					}
					if fa, ok := x.X.(*ssa.FieldAddr); ok {
						if a, ok := fa.X.(*ssa.Alloc); ok && !a.Heap {
							continue
						}
					}
					f.addStoreComps(x.X, out)
				}
			case ssa.CallInstruction:
				ct, _, _ := f.staticCallContract(x.Common())
				contractAtoms(ct, at)
			}
		}
	}
	f.e.compsOfAtoms(at, out)
	if os.Getenv("GOVC_DEBUG_REL") != "" {
		var ks []string
		for k := range out {
			ks = append(ks, k)
		}
		sort.Strings(ks)
		fmt.Fprintf(os.Stderr, "relevant(%s): mods=%d total=%d %v\n", f.name, len(mods), len(out), ks)
	}
	return out
}

func (f *FnEnc) modSetQuiet(blocks map[*ssa.BasicBlock]bool) (map[*ssa.Alloc]bool, map[string]bool) {
	cells, comps := f.modSet(blocks)
	// an unknown callee makes everything relevant; that is fine
	return cells, comps
}

// sortedCells lists the cells of a set in a fixed order (map iteration order would make the
// numbering of generated symbols, and so the query text, differ from run to run).
func sortedCells(m map[*ssa.Alloc]bool) []*ssa.Alloc {
	out := make([]*ssa.Alloc, 0, len(m))
	for c := range m {
		out = append(out, c)
	}
	sort.Slice(out, func(i, j int) bool {
		if out[i].Pos() != out[j].Pos() {
			return out[i].Pos() < out[j].Pos()
		}
		return out[i].Name() < out[j].Name()
	})
	return out
}
