package main

import (
	"bytes"
	"context"
	"crypto/sha256"
	"encoding/hex"
	"fmt"
	"os"
	"os/exec"
	"path/filepath"
	"regexp"
	"strings"
	"sync"
	"sync/atomic"
	"time"
)

var nFailed int32

// failure budget of one run (GOVC_MAXFAIL overrides): after that many failed obligations the rest
// is not attempted
var maxFailures = envInt32("GOVC_MAXFAIL", 12)

type SolveResult struct {
	Status  string // unsat | sat | unknown | timeout | error
	Solver  string
	Seconds float64
	Output  string
	Tried   []string
	File    string
}

type solverSpec struct {
	name string
	argv func(file string, timeoutSec int) []string
}

var solvers = []solverSpec{
	{"z3-4.8.12", func(file string, t int) []string {
		return []string{"/usr/bin/z3", fmt.Sprintf("-T:%d", t), file}
	}},
	{"z3-5.1.0", func(file string, t int) []string {
		return []string{"z3-new", fmt.Sprintf("-T:%d", t), file}
	}},
	{"cvc5-1.0", func(file string, t int) []string {
		return []string{"cvc5", fmt.Sprintf("--tlimit=%d", t*1000), file}
	}},
	{"z3-5.1.0/arith2", func(file string, t int) []string {
		return []string{"z3-new", fmt.Sprintf("-T:%d", t), "smt.arith.solver=2", file}
	}},
	{"z3-5.1.0/relevancy1", func(file string, t int) []string {
		return []string{"z3-new", fmt.Sprintf("-T:%d", t), "smt.relevancy=1", file}
	}},
	{"z3-5.1.0/seed7", func(file string, t int) []string {
		return []string{"z3-new", fmt.Sprintf("-T:%d", t), "smt.random_seed=7", file}
	}},
	{"z3-5.1.0/seed7+arith2", func(file string, t int) []string {
		return []string{"z3-new", fmt.Sprintf("-T:%d", t), "smt.random_seed=7", "smt.arith.solver=2", file}
	}},
	{"z3-5.1.0/seed23", func(file string, t int) []string {
		return []string{"z3-new", fmt.Sprintf("-T:%d", t), "smt.random_seed=23", file}
	}},
	{"z3-4.8.12/seed7", func(file string, t int) []string {
		return []string{"/usr/bin/z3", fmt.Sprintf("-T:%d", t), "smt.random_seed=7", file}
	}},
	z3v("z3-5.1.0/noauto", "z3-new", "auto_config=false"),
	z3v("z3-5.1.0/noauto+seed5", "z3-new", "auto_config=false", "smt.random_seed=5"),
	z3v("z3-5.1.0/noauto+seed11", "z3-new", "auto_config=false", "smt.random_seed=11"),
	z3v("z3-5.1.0/noauto+seed42", "z3-new", "auto_config=false", "smt.random_seed=42"),
	z3v("z3-4.8.12/noauto", "/usr/bin/z3", "auto_config=false"),
	z3v("z3-5.1.0/seed99", "z3-new", "smt.random_seed=99"),
}

func z3v(name, bin string, opts ...string) solverSpec {
	return solverSpec{name, func(file string, t int) []string {
		return append(append([]string{bin, fmt.Sprintf("-T:%d", t)}, opts...), file)
	}}
}

// stage1 is tried first with a short timeout; stage2 (solver configurations and random seeds: the
// run time of these quantified goals is heavy-tailed, restarts with other seeds are the cure) only
// for what stage1 leaves open.
var stage1 = []int{1, 0}
var stage2 = []int{9, 10, 3, 5, 11, 4, 12, 6, 13, 7, 8, 14, 2}

func runSolver(sp solverSpec, file string, timeoutSec int) (string, string, float64) {
	return runSolverCtx(context.Background(), sp, file, timeoutSec)
}

func runSolverCtx(parent context.Context, sp solverSpec, file string, timeoutSec int) (string, string, float64) {
	ctx, cancel := context.WithTimeout(parent, time.Duration(timeoutSec+2)*time.Second)
	defer cancel()
	argv := sp.argv(file, timeoutSec)
	cmd := exec.CommandContext(ctx, argv[0], argv[1:]...)
	var out bytes.Buffer
	cmd.Stdout = &out
	cmd.Stderr = &out
	t0 := time.Now()
	_ = cmd.Run()
	dt := time.Since(t0).Seconds()
	txt := out.String()
	first := strings.TrimSpace(strings.SplitN(txt, "\n", 2)[0])
	switch first {
	case "unsat", "sat", "unknown":
		return first, txt, dt
	case "timeout":
		return "timeout", txt, dt
	}
	if ctx.Err() != nil {
		return "timeout", txt, dt
	}
	if strings.Contains(txt, "timeout") || strings.Contains(txt, "interrupted") {
		return "timeout", txt, dt
	}
	return "error", txt, dt
}

// Verdict store. Only `unsat` answers are ever stored, keyed by the SHA-256 of the complete query
// text: the identical query has the identical answer, whoever asks. GOVC_VERDICTS names the
// committed store (one "hash solver seconds" line per verdict, read-only at run time);
// GOVC_CACHE names a directory whose file local.txt receives the verdicts found by this run.
// GOVC_FRESH=1 (thorough tier) asks the solvers first and falls back to a stored verdict only
// when they do not answer in time.
var cacheDir = os.Getenv("GOVC_CACHE")
var verdictFile = os.Getenv("GOVC_VERDICTS")
var freshFirst = os.Getenv("GOVC_FRESH") != ""

var (
	verdictOnce sync.Once
	verdictMu   sync.Mutex
	verdicts    map[string]string
	localOut    *os.File
	nReused     int32
	nFresh      int32
)

func loadVerdicts() {
	verdicts = map[string]string{}
	read := func(path string) {
		data, err := os.ReadFile(path)
		if err != nil {
			return
		}
		for _, l := range strings.Split(string(data), "\n") {
			f := strings.Fields(l)
			if len(f) >= 2 {
				verdicts[f[0]] = f[1]
			}
		}
	}
	if verdictFile != "" {
		read(verdictFile)
	}
	if cacheDir != "" {
		os.MkdirAll(cacheDir, 0755)
		read(filepath.Join(cacheDir, "local.txt"))
		localOut, _ = os.OpenFile(filepath.Join(cacheDir, "local.txt"), os.O_APPEND|os.O_CREATE|os.O_WRONLY, 0644)
	}
}

func cacheKey(script string) string {
	h := sha256.Sum256([]byte(script))
	return hex.EncodeToString(h[:])
}

// cacheGet returns a stored positive answer to the identical query text.
func cacheGet(script string) *SolveResult {
	verdictOnce.Do(loadVerdicts)
	verdictMu.Lock()
	sv, ok := verdicts[cacheKey(script)]
	verdictMu.Unlock()
	if !ok {
		return nil
	}
	atomic.AddInt32(&nReused, 1)
	return &SolveResult{Status: "unsat", Solver: sv + " (stored verdict for the identical query)", Tried: []string{"stored:unsat"}}
}

func cachePut(script string, r *SolveResult) {
	if r.Status != "unsat" {
		return
	}
	verdictOnce.Do(loadVerdicts)
	k := cacheKey(script)
	verdictMu.Lock()
	defer verdictMu.Unlock()
	if _, ok := verdicts[k]; ok {
		return
	}
	sv := strings.Fields(r.Solver + " ?")[0]
	verdicts[k] = sv
	if localOut != nil {
		fmt.Fprintf(localOut, "%s %s %.3f\n", k, sv, r.Seconds)
	}
}

// discharge races the solver portfolio on one obligation script: the first definite answer wins.
func discharge(script string, file string, timeoutSec int, wantModel bool, order []int) *SolveResult {
	if !freshFirst {
		if c := cacheGet(script); c != nil {
			return c
		}
	}
	r := discharge0(script, file, timeoutSec, wantModel, order)
	atomic.AddInt32(&nFresh, 1)
	if freshFirst && r.Status != "unsat" && r.Status != "sat" {
		if c := cacheGet(script); c != nil {
			c.Tried = append(r.Tried, c.Tried...)
			c.Seconds = r.Seconds
			return c
		}
	}
	cachePut(script, r)
	return r
}

func discharge0(script string, file string, timeoutSec int, wantModel bool, order []int) *SolveResult {
	if err := os.WriteFile(file, []byte(script), 0644); err != nil {
		return &SolveResult{Status: "error", Output: err.Error()}
	}
	res := &SolveResult{Status: "unknown", File: file}
	type ans struct {
		name, st, out string
		dt            float64
	}
	ctx, cancel := context.WithCancel(context.Background())
	defer cancel()
	ch := make(chan ans, len(order))
	t0 := time.Now()
	for _, si := range order {
		sp := solvers[si]
		go func() {
			st, out, dt := runSolverCtx(ctx, sp, file, timeoutSec)
			ch <- ans{sp.name, st, out, dt}
		}()
	}
	for range order {
		a := <-ch
		res.Tried = append(res.Tried, fmt.Sprintf("%s:%s:%.2fs", a.name, a.st, a.dt))
		if a.st == "unsat" || a.st == "sat" {
			res.Status = a.st
			res.Solver = a.name
			res.Seconds = time.Since(t0).Seconds()
			res.Output = a.out
			cancel()
			return res
		}
		if a.st == "error" {
			res.Output += "\n[" + a.name + "] " + firstLines(a.out, 5)
		}
		if a.st == "timeout" && res.Status == "unknown" {
			res.Status = "timeout"
		}
	}
	res.Seconds = time.Since(t0).Seconds()
	nerr := 0
	for _, t := range res.Tried {
		if strings.Contains(t, ":error:") {
			nerr++
		}
	}
	if nerr == len(order) {
		res.Status = "error"
	}
	return res
}

func firstLines(s string, n int) string {
	ls := strings.Split(s, "\n")
	if len(ls) > n {
		ls = ls[:n]
	}
	return strings.Join(ls, "\n")
}

// solveAll discharges all obligations in parallel.
func solveAll(prelude0 string, encs []*FnEnc, dir string, timeoutSec, workers int) {
	type job struct {
		f  *FnEnc
		ob *Obligation
		n  int
	}
	var jobs []job
	n := 0
	for _, f := range encs {
		for _, ob := range f.obls {
			if ob.Result != nil && ob.Result.Status == "known" {
				n++
				continue
			}
			jobs = append(jobs, job{f, ob, n})
			n++
		}
	}
	ch := make(chan job)
	var wg sync.WaitGroup
	for w := 0; w < workers; w++ {
		wg.Add(1)
		go func() {
			defer wg.Done()
			for j := range ch {
				if atomic.LoadInt32(&nFailed) >= maxFailures && !j.ob.Cover {
					j.ob.Result = &SolveResult{Status: "skipped", Tried: []string{"not attempted: the failure budget of this run was already used up"}}
					continue
				}
				sliced := !noSlice
			again:
				body := j.f.slice(0, j.ob.Pos, j.ob.Block, sliced)
				prelude := prelude0
				if j.f.e != nil {
					prelude = j.f.e.slimPrelude(prelude0, body+j.ob.Goal+j.ob.At)
				}
				var b strings.Builder
				b.WriteString(prelude)
				b.WriteString(body)
				fmt.Fprintf(&b, "\n; obligation %s\n(assert %s)\n", j.ob.Name, j.ob.At)
				tmo := timeoutSec
				order := []int{1, 0, 3, 4}
				if j.ob.Cover {
					b.WriteString("(check-sat)\n")
					tmo = 2
					order = []int{0}
					if j.ob.LongCover {
						tmo = 5
						order = []int{0, 1}
					}
				}
				file := filepath.Join(dir, fmt.Sprintf("ob%04d_%s.smt2", j.n, sanitize(j.ob.Name)))
				if !j.ob.Cover {
					// conjunctive goals are proved conjunct by conjunct (one query each)
					parts := splitGoal(j.ob.Goal)
					head := b.String()
					// the same query without the scoped theory axioms (sound: fewer assumptions);
					// tried first because the axioms slow trivial goals down
					headLite := ""
					if j.f.theoryEnd > j.f.theoryStart && j.f.theoryEnd <= j.ob.Pos {
						var lb strings.Builder
						lb.WriteString(prelude)
						lb.WriteString(j.f.slice(0, j.f.theoryStart, j.ob.Block, sliced))
						lb.WriteString(j.f.slice(j.f.theoryEnd, j.ob.Pos, j.ob.Block, sliced))
						fmt.Fprintf(&lb, "\n; obligation %s (without theory axioms)\n(assert %s)\n", j.ob.Name, j.ob.At)
						headLite = lb.String()
					}
					var agg *SolveResult
					for pi, part := range parts {
						pf := file
						if len(parts) > 1 {
							pf = strings.TrimSuffix(file, ".smt2") + fmt.Sprintf(".p%d.smt2", pi)
						}
						script := head + fmt.Sprintf("(assert (not %s))\n(check-sat)\n", part)
						var r *SolveResult
						if headLite != "" && !mentionsTheory(part) {
							lt := 8
							if tmo < lt {
								lt = tmo
							}
							r = discharge(headLite+fmt.Sprintf("(assert (not %s))\n(check-sat)\n", part), strings.TrimSuffix(pf, ".smt2")+".lite.smt2", lt, false, []int{1, 0, 3})
							if r.Status != "unsat" {
								r = nil
							}
						}
						if r == nil {
							t1 := 5
							if tmo < t1 {
								t1 = tmo
							}
							r = discharge(script, pf, t1, false, stage1)
							if r.Status != "unsat" && r.Status != "sat" {
								// case analysis on "does this append fit in place?": each case is an
								// easy query where the undivided one makes the solvers wander
								if cs := caseSplit(script, pf, t1); cs != nil {
									cs.Tried = append(r.Tried, cs.Tried...)
									cs.Seconds += r.Seconds
									r = cs
								}
							}
							if r.Status != "unsat" && r.Status != "sat" {
								r2 := discharge(script, pf, tmo, false, stage2)
								r2.Tried = append(r.Tried, r2.Tried...)
								r2.Seconds += r.Seconds
								if r2.Status == "error" && r.Status != "error" {
									r2.Status = r.Status
								}
								r = r2
							}
						}
						if agg == nil {
							agg = r
						} else {
							agg.Seconds += r.Seconds
							agg.Tried = append(agg.Tried, r.Tried...)
							if r.Status != "unsat" {
								agg.Status, agg.Output, agg.File, agg.Solver = r.Status, r.Output, r.File, r.Solver
							}
						}
						if r.Status != "unsat" {
							break
						}
					}
					if agg.Status == "error" && sliced {
						// the slice dropped a definition something kept refers to: use the whole prefix
						sliced = false
						goto again
					}
					j.ob.Result = agg
					if agg.Status != "unsat" {
						atomic.AddInt32(&nFailed, 1)
					}
					continue
				}
				j.ob.Result = discharge(b.String(), file, tmo, false, order)
				if !j.ob.Cover && j.ob.Result.Status != "unsat" && j.ob.Result.Status != "sat" {
					// second stage: cvc5 alone
					r2 := discharge(b.String(), file, tmo, false, []int{2})
					r2.Tried = append(j.ob.Result.Tried, r2.Tried...)
					if r2.Status == "unsat" || r2.Status == "sat" {
						r2.Seconds += j.ob.Result.Seconds
						j.ob.Result = r2
					} else {
						j.ob.Result.Tried = r2.Tried
						if j.ob.Result.Status == "error" && r2.Status != "error" {
							j.ob.Result.Status = r2.Status
						}
					}
				}
				if !j.ob.Cover && j.ob.Result.Status != "unsat" {
					atomic.AddInt32(&nFailed, 1)
				}
			}
		}()
	}
	for _, j := range jobs {
		ch <- j
	}
	close(ch)
	wg.Wait()
}

// getModel re-runs a sat obligation asking for a model.
func getModel(file string) string {
	data, err := os.ReadFile(file)
	if err != nil {
		return ""
	}
	mf := file + ".model.smt2"
	_ = os.WriteFile(mf, append(data, []byte("(get-model)\n")...), 0644)
	defer os.Remove(mf)
	_, out, _ := runSolver(solvers[1], mf, 20)
	return out
}

// splitGoal splits a goal into conjuncts: (and a b) and (=> p (and a b)) are proved part by part.
func splitGoal(goal string) []string {
	x, err := parseOneSX(goal)
	if err != nil {
		return []string{goal}
	}
	parts := splitSX(x)
	if len(parts) > 16 || len(parts) < 2 {
		return []string{goal}
	}
	out := make([]string, len(parts))
	for i, p := range parts {
		out[i] = p.String()
	}
	return out
}

func splitSX(x *SX) []*SX {
	if x.IsL && len(x.List) >= 2 && !x.List[0].IsL {
		switch x.List[0].Atom {
		case "and":
			var out []*SX
			for _, c := range x.List[1:] {
				out = append(out, splitSX(c)...)
			}
			return out
		case "=>":
			if len(x.List) == 3 {
				var out []*SX
				for _, q := range splitSX(x.List[2]) {
					out = append(out, &SX{IsL: true, List: []*SX{x.List[0], x.List[1], q}})
				}
				return out
			}
		case "forall":
			if !splitForall {
				break
			}
			// (forall B (and p q)) is proved as (forall B p) and (forall B q); the pattern
			// annotation (irrelevant for a goal, which is negated and skolemised) is dropped
			if len(x.List) == 3 {
				body := x.List[2]
				if body.IsL && len(body.List) >= 2 && !body.List[0].IsL && body.List[0].Atom == "!" {
					body = body.List[1]
				}
				qs := splitSX(body)
				if len(qs) < 2 {
					return []*SX{x}
				}
				var out []*SX
				for _, q := range qs {
					out = append(out, &SX{IsL: true, List: []*SX{x.List[0], x.List[1], q}})
				}
				return out
			}
		}
	}
	return []*SX{x}
}

var theoryWords = []string{"(cat ", "(blen ", "(take ", "(drop ", "(uv ", "encElems", "encLinks", "EncNode", "encList", "(lay ", "(pow ", "(ord ", "Sorted", "TopSorted", "msh", "uvVal", "uvLen", "decElems", "bcmp"}

func mentionsTheory(goal string) bool {
	for _, w := range theoryWords {
		if strings.Contains(goal, w) {
			return true
		}
	}
	return false
}

var fitsRe = regexp.MustCompile(`\(define-fun (app\.fits![0-9]+) \(\) Bool`)

// caseSplit proves a goal by cases over the (at most three) append-fits conditions of the query:
// all 2^k strengthened queries must be unsat. Returns nil when there is nothing to split on or a
// case stays open.
func caseSplit(script, file string, tmo int) *SolveResult {
	var names []string
	for _, m := range fitsRe.FindAllStringSubmatch(script, -1) {
		names = append(names, m[1])
	}
	if len(names) == 0 || len(names) > 3 {
		return nil
	}
	i := strings.LastIndex(script, "(check-sat)")
	if i < 0 {
		return nil
	}
	res := &SolveResult{Status: "unsat", Solver: "case-split"}
	for mask := 0; mask < 1<<len(names); mask++ {
		var hs strings.Builder
		for k, n := range names {
			if mask&(1<<k) != 0 {
				fmt.Fprintf(&hs, "(assert %s)\n", n)
			} else {
				fmt.Fprintf(&hs, "(assert (not %s))\n", n)
			}
		}
		r := discharge(script[:i]+hs.String()+script[i:], strings.TrimSuffix(file, ".smt2")+fmt.Sprintf(".case%d.smt2", mask), tmo, false, stage1)
		res.Tried = append(res.Tried, r.Tried...)
		res.Seconds += r.Seconds
		if r.Status != "unsat" {
			return nil
		}
		if res.Solver == "case-split" {
			res.Solver = "case-split/" + r.Solver
		}
	}
	return res
}

// GOVC_SPLITFORALL=1: also prove (forall B (and p q)) part by part (off: each part repeats the
// same hard instantiation work)
var splitForall = os.Getenv("GOVC_SPLITFORALL") != ""

// GOVC_NOSLICE=1 turns the per-obligation block slicing off (debugging aid)
var noSlice = os.Getenv("GOVC_NOSLICE") != ""

func envInt32(name string, def int32) int32 {
	var v int32
	if _, err := fmt.Sscanf(os.Getenv(name), "%d", &v); err == nil && v > 0 {
		return v
	}
	return def
}
