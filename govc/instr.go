package main

import (
	"fmt"
	"go/token"
	"go/types"
	"strings"

	"golang.org/x/tools/go/ssa"
)

func (f *FnEnc) setVal(v ssa.Value, term string) {
	s := f.e.reg.sortOf(v.Type())
	f.vals[v] = Val{f.def(v.Name(), s, term), s}
}

func (f *FnEnc) instr(in ssa.Instruction) {
	f.curInstr = in
	switch x := in.(type) {
	case *ssa.DebugRef:
	case *ssa.Alloc:
		f.doAlloc(x)
	case *ssa.FieldAddr:
		f.doFieldAddr(x)
	case *ssa.IndexAddr:
		f.doIndexAddr(x)
	case *ssa.UnOp:
		f.doUnOp(x)
	case *ssa.Store:
		a := f.addrOf(x.Addr)
		v := f.val(x.Val)
		f.store(a, v)
		if al, ok := x.Addr.(*ssa.Alloc); ok && !al.Heap && f.storeCount[al] == 1 {
			// static knowledge about a cell that is assigned exactly once
			if cl, ok := f.clos[x.Val]; ok {
				f.cellClos[al] = cl
			}
			if p, ok := f.provs[x.Val]; ok {
				f.cellProv[al] = p
			}
			if fk, ok := f.fnKeys[x.Val]; ok {
				f.cellFnKey[al] = fk
			}
			if ad, ok := f.addrs[x.Val]; ok && (ad.Kind == akObj || ad.Kind == akBox) {
				f.cellAddr[al] = ad
			}
		}
	case *ssa.BinOp:
		f.doBinOp(x)
	case *ssa.Call:
		f.doCall(x, &x.Call)
	case *ssa.Extract:
		tv, ok := f.tuples[x.Tuple]
		if !ok || x.Index >= len(tv) {
			f.fail("extract from unknown tuple %s", x.Tuple.Name())
			return
		}
		f.vals[x] = tv[x.Index]
		if a, ok := f.tupleAddrs[x.Tuple]; ok && a[x.Index] != nil {
			f.addrs[x] = a[x.Index]
		}
	case *ssa.Slice:
		f.doSlice(x)
	case *ssa.MakeSlice:
		f.doMakeSlice(x)
	case *ssa.MakeInterface:
		f.doMakeInterface(x)
	case *ssa.ChangeInterface:
		f.vals[x] = f.val(x.X)
	case *ssa.ChangeType:
		f.vals[x] = f.val(x.X)
		if a, ok := f.addrs[x.X]; ok {
			f.addrs[x] = a
		}
		if cl, ok := f.clos[x.X]; ok {
			f.clos[x] = cl
		}
	case *ssa.Convert:
		f.doConvert(x)
	case *ssa.TypeAssert:
		f.doTypeAssert(x)
	case *ssa.Phi:
		f.doPhi(x)
	case *ssa.Field:
		sv := f.val(x.X)
		t, _ := f.getPath(x.X.Type(), sv.T, []int{x.Field})
		f.setVal(x, t)
	case *ssa.Index:
		f.fail("unsupported Index on array value")
	case *ssa.Lookup:
		f.doLookup(x)
	case *ssa.MapUpdate:
		f.doMapUpdate(x)
	case *ssa.MakeMap:
		r := f.alloc()
		mt := x.Type().Underlying().(*types.Map)
		mc, hc := f.e.reg.mapComp(mt)
		// fresh map: no keys present
		emptyHas := fmt.Sprintf("((as const (Array %s Bool)) false)", f.e.reg.sortOf(mt.Key()))
		f.setComp(hc, fmt.Sprintf("(store %s %s %s)", f.comp(hc), r, emptyHas), f.compSort(hc))
		_ = mc
		f.vals[x] = Val{r, "Int"}
	case *ssa.MakeChan:
		r := f.alloc()
		f.vals[x] = Val{r, "Int"}
	case *ssa.MakeClosure:
		f.doMakeClosure(x)
	case *ssa.Go:
		f.doGo(x)
	case *ssa.Defer:
		f.doDefer(x)
	case *ssa.RunDefers:
		f.doRunDefers()
	case *ssa.Send:
		f.doSend(x)
	case *ssa.If, *ssa.Jump:
		// handled by block scheduler
	case *ssa.Return:
		f.doReturn(x)
	case *ssa.Panic:
		f.oblige("safe", "panic", f.autoTags(), "false", "")
	default:
		f.fail("unsupported instruction %T: %s", in, in.String())
	}
}

func (f *FnEnc) doAlloc(x *ssa.Alloc) {
	el := x.Type().(*types.Pointer).Elem()
	if !x.Heap {
		// local cell
		if arr, ok := el.Underlying().(*types.Array); ok && !isByte(arr.Elem()) {
			f.fail("local non-byte array cell")
			return
		}
		s := f.e.reg.sortOf(el)
		f.cellName[x] = x.Comment
		f.addrs[x] = &Addr{Kind: akCell, Cell: x, Typ: el}
		f.st.cells[x] = Val{f.e.reg.zeroOf(el), s}
		if arr, ok := el.Underlying().(*types.Array); ok && isByte(arr.Elem()) {
			// uninitialised content of fixed length
			c := f.fresh("bytearr", "Bytes")
			f.assume(fmt.Sprintf("(= (blen %s) %d)", c, arr.Len()))
			f.st.cells[x] = Val{c, "Bytes"}
		}
		return
	}
	r := f.alloc()
	f.vals[x] = Val{r, "Int"}
	switch u := el.Underlying().(type) {
	case *types.Struct:
		if f.e.reg.isOpaqueStruct(el) {
			f.addrs[x] = &Addr{Kind: akObj, Ref: r, Typ: el}
			return
		}
		f.zeroStruct(el, r)
		f.addrs[x] = &Addr{Kind: akObj, Ref: r, Typ: el}
		f.cellName2[x] = x.Comment
		f.allocHook(el, r)
	case *types.Array:
		if isByte(u.Elem()) {
			comp := f.e.reg.boxComp(el)
			c := f.fresh("bytearr", "Bytes")
			f.assume(fmt.Sprintf("(= (blen %s) %d)", c, u.Len()))
			f.writeField(comp, r, c)
			f.addrs[x] = &Addr{Kind: akBox, Ref: r, Comp: comp, Typ: el}
			return
		}
		// heap array: elements live in Arr.<sort>[r]
		f.addrs[x] = &Addr{Kind: akObj, Ref: r, Typ: el}
		f.arrLens[r] = u.Len()
	default:
		comp := f.e.reg.boxComp(el)
		f.writeField(comp, r, f.e.reg.zeroOf(el))
		f.addrs[x] = &Addr{Kind: akBox, Ref: r, Comp: comp, Typ: el}
		f.cellName2[x] = x.Comment
	}
}

// allocHook lets ghost fields of freshly allocated objects start from declared defaults.
func (f *FnEnc) allocHook(t types.Type, ref string) {
	si := f.e.reg.structInfo(t)
	for _, g := range f.e.cs.Ghost {
		if strings.HasPrefix(g.Comp, si.GoName+".") && strings.HasPrefix(g.Sort, "(Array Int ") {
			el := strings.TrimSuffix(strings.TrimPrefix(g.Sort, "(Array Int "), ")")
			f.writeField(g.Comp, ref, f.e.reg.zeroOfSort(el))
		}
	}
}

func (f *FnEnc) doFieldAddr(x *ssa.FieldAddr) {
	base := f.addrOf(x.X)
	st := x.X.Type().Underlying().(*types.Pointer).Elem()
	si := f.e.reg.structInfo(st)
	fi := si.Fields[x.Field]
	switch base.Kind {
	case akCell:
		p := append(append([]int{}, base.Path...), x.Field)
		f.addrs[x] = &Addr{Kind: akCell, Cell: base.Cell, Path: p, Typ: fi.Type}
	case akElem:
		p := append(append([]int{}, base.Path...), x.Field)
		f.addrs[x] = &Addr{Kind: akElem, Arr: base.Arr, Idx: base.Idx, ArrComp: base.ArrComp, Path: p, Typ: fi.Type, elemT: base.elemType(), ProvRef: base.ProvRef, ProvComp: base.ProvComp}
	case akObj:
		f.nilCheck(base.Ref, "field")
		if fi.IsStruct {
			f.addrs[x] = &Addr{Kind: akObj, Ref: f.def("inner", "Int", f.innerRef(base.Ref, x.Field, fi)), Typ: fi.Type}
		} else {
			f.addrs[x] = &Addr{Kind: akField, Ref: base.Ref, Comp: fi.Comp, Typ: fi.Type}
		}
	default:
		f.fail("FieldAddr on address kind %d", base.Kind)
	}
}

func (f *FnEnc) doIndexAddr(x *ssa.IndexAddr) {
	idx := f.val(x.Index).T
	switch xt := x.X.Type().Underlying().(type) {
	case *types.Slice:
		sv := f.val(x.X).T
		if f.val(x.X).S == "BS" {
			f.oblige("safe", "index", f.autoTags(), fmt.Sprintf("(and (<= 0 %s) (< %s (blen (bs.val %s))))", idx, idx, sv), "")
			f.addrs[x] = &Addr{Kind: akByteAt, Typ: xt.Elem(), elemT: xt.Elem()}
			return
		}
		f.oblige("safe", "index", f.autoTags(), fmt.Sprintf("(and (<= 0 %s) (< %s (sl.len %s)))", idx, idx, sv), "")
		a := &Addr{Kind: akElem, Arr: fmt.Sprintf("(sl.arr %s)", sv), Idx: f.def("idx", "Int", fmt.Sprintf("(+ (sl.off %s) %s)", sv, idx)),
			ArrComp: f.e.reg.arrComp(xt.Elem()), Typ: xt.Elem(), elemT: xt.Elem()}
		if p, ok := f.provs[x.X]; ok {
			a.ProvRef, a.ProvComp = p.Ref, p.Comp
		}
		f.addrs[x] = a
	case *types.Pointer:
		arr := xt.Elem().Underlying().(*types.Array)
		base := f.addrOf(x.X)
		if isByte(arr.Elem()) {
			f.fail("IndexAddr into byte array")
			return
		}
		f.oblige("safe", "index", f.autoTags(), fmt.Sprintf("(and (<= 0 %s) (< %s %d))", idx, idx, arr.Len()), "")
		f.addrs[x] = &Addr{Kind: akElem, Arr: base.Ref, Idx: idx, ArrComp: f.e.reg.arrComp(arr.Elem()), Typ: arr.Elem(), elemT: arr.Elem()}
	default:
		f.fail("IndexAddr on %T", xt)
	}
}

func (f *FnEnc) doUnOp(x *ssa.UnOp) {
	switch x.Op {
	case token.MUL:
		a := f.addrOf(x.X)
		if a.Kind == akObj || a.Kind == akDyn {
			if a.Kind == akObj {
				f.nilCheck(a.Ref, "deref")
			} else {
				f.oblige("safe", "nil", f.autoTags(), fmt.Sprintf("(not (= %s 0))", a.PtrTerm), "")
			}
		}
		v := f.load(a)
		s := f.e.reg.sortOf(x.Type())
		name := f.def(x.Name(), s, v.T)
		f.vals[x] = Val{name, s}
		// facts about values read from memory
		if a.Kind != akCell {
			if tf := f.typeFacts(x.Type(), name); tf != "true" {
				f.assume(tf)
			}
		}
		if a.Kind == akField {
			if _, isSl := x.Type().Underlying().(*types.Slice); isSl {
				f.provs[x] = Prov{Ref: a.Ref, Comp: a.Comp}
			}
		}
		if a.Kind == akCell && len(a.Path) == 0 {
			// propagate static knowledge stored in the cell
			if cl, ok := f.cellClos[a.Cell]; ok {
				f.clos[x] = cl
			}
			if ca, ok := f.cellAddr[a.Cell]; ok {
				f.addrs[x] = ca
			}
			if p, ok := f.cellProv[a.Cell]; ok {
				f.provs[x] = p
			}
			if fk, ok := f.cellFnKey[a.Cell]; ok {
				f.fnKeys[x] = fk
			}
		}
		if a.Kind == akField {
			f.fnKeys[x] = "field:" + a.Comp
		}
		if a.Kind == akGlobal {
			f.fnKeys[x] = "global:" + strings.TrimPrefix(a.Comp, "G.")
		}
	case token.NOT:
		f.setVal(x, fmt.Sprintf("(not %s)", f.val(x.X).T))
	case token.SUB:
		b, _ := x.Type().Underlying().(*types.Basic)
		f.setVal(x, wrapInt(b, fmt.Sprintf("(- %s)", f.val(x.X).T), token.SUB))
	case token.ARROW:
		f.doRecv(x)
	default:
		f.fail("unsupported unary op %s", x.Op)
	}
}

func (f *FnEnc) doBinOp(x *ssa.BinOp) {
	a, b := f.val(x.X), f.val(x.Y)
	xt := x.X.Type()
	switch x.Op {
	case token.EQL, token.NEQ:
		eq := f.equality(xt, x.Y.Type(), a, b)
		if x.Op == token.NEQ {
			eq = fmt.Sprintf("(not %s)", eq)
		}
		f.setVal(x, eq)
		return
	case token.LSS, token.LEQ, token.GTR, token.GEQ:
		op := map[token.Token]string{token.LSS: "<", token.LEQ: "<=", token.GTR: ">", token.GEQ: ">="}[x.Op]
		if a.S == "Bytes" {
			f.setVal(x, fmt.Sprintf("(%s (bcmp %s %s) 0)", op, a.T, b.T))
			return
		}
		f.setVal(x, fmt.Sprintf("(%s %s %s)", op, a.T, b.T))
		return
	}
	bt, _ := x.Type().Underlying().(*types.Basic)
	if a.S == "Bytes" && x.Op == token.ADD {
		f.setVal(x, fmt.Sprintf("(cat %s %s)", a.T, b.T))
		return
	}
	if a.S == "Bool" {
		switch x.Op {
		case token.AND, token.LAND:
			f.setVal(x, fmt.Sprintf("(and %s %s)", a.T, b.T))
		case token.OR, token.LOR:
			f.setVal(x, fmt.Sprintf("(or %s %s)", a.T, b.T))
		default:
			f.fail("unsupported bool op %s", x.Op)
		}
		return
	}
	switch x.Op {
	case token.ADD:
		// sums and differences end up inside index terms: keep them opaque constants so that the
		// solver's arithmetic normalisation does not change the shape of (+ off i) patterns
		f.opaqueInt = true
		f.setVal(x, wrapInt(bt, fmt.Sprintf("(+ %s %s)", a.T, b.T), x.Op))
		f.opaqueInt = false
	case token.SUB:
		f.opaqueInt = true
		f.setVal(x, wrapInt(bt, fmt.Sprintf("(- %s %s)", a.T, b.T), x.Op))
		f.opaqueInt = false
	case token.MUL:
		f.setVal(x, wrapInt(bt, fmt.Sprintf("(* %s %s)", a.T, b.T), x.Op))
	case token.QUO, token.REM:
		f.oblige("safe", "divzero", f.autoTags(), fmt.Sprintf("(not (= %s 0))", b.T), "")
		_, signed, _ := intModulus(bt)
		var t string
		if !signed {
			if x.Op == token.QUO {
				t = fmt.Sprintf("(div %s %s)", a.T, b.T)
			} else {
				t = fmt.Sprintf("(mod %s %s)", a.T, b.T)
			}
		} else {
			// Go truncates toward zero; SMT-LIB div/mod are Euclidean (0 <= mod < |b|)
			if x.Op == token.QUO {
				t = fmt.Sprintf("(ite (>= %s 0) (div %s %s) (- (div (- %s) %s)))", a.T, a.T, b.T, a.T, b.T)
			} else {
				t = fmt.Sprintf("(ite (>= %s 0) (mod %s %s) (- (mod (- %s) %s)))", a.T, a.T, b.T, a.T, b.T)
			}
		}
		f.setVal(x, t)
	default:
		f.fail("unsupported binary op %s", x.Op)
	}
}

// equality of two Go values of (static) types tx, ty.
func (f *FnEnc) equality(tx, ty types.Type, a, b Val) string {
	if a.S == "Any" || b.S == "Any" {
		// interface comparison: panics when both dynamic types are identical and uncomparable
		isNilConst := func(v Val) bool { return v.T == "anil" }
		if !isNilConst(a) && !isNilConst(b) {
			f.oblige("safe", "ifacecmp", f.autoTags(), fmt.Sprintf("(or (not (= (a.tid %s) (a.tid %s))) (comparable (a.tid %s)))", a.T, b.T, a.T), "")
		}
		return fmt.Sprintf("(= %s %s)", a.T, b.T)
	}
	if a.S == "Slice" {
		// only comparison against nil is legal
		other := a
		if a.T == "slnil" {
			other = b
		}
		return fmt.Sprintf("(= (sl.arr %s) 0)", other.T)
	}
	if a.S == "BS" {
		other := a
		if a.T == "bsnil" {
			other = b
		}
		return fmt.Sprintf("(bs.nil %s)", other.T)
	}
	return fmt.Sprintf("(= %s %s)", a.T, b.T)
}

func (f *FnEnc) doPhi(x *ssa.Phi) {
	// value phi (&&, ||): select by incoming edge
	b := x.Block()
	s := f.e.reg.sortOf(x.Type())
	var t string
	for i := len(b.Preds) - 1; i >= 0; i-- {
		p := b.Preds[i]
		ec, ok := f.edgeCond[[2]int{p.Index, b.Index}]
		if !ok {
			f.fail("phi: missing edge condition %d->%d", p.Index, b.Index)
			return
		}
		v := f.val(x.Edges[i]).T
		if t == "" {
			t = v
		} else {
			t = fmt.Sprintf("(ite %s %s %s)", ec, v, t)
		}
	}
	f.vals[x] = Val{f.def(x.Name(), s, t), s}
}

func (f *FnEnc) doSlice(x *ssa.Slice) {
	var lo, hi, max string
	if x.Low != nil {
		lo = f.val(x.Low).T
	} else {
		lo = "0"
	}
	switch xt := x.X.Type().Underlying().(type) {
	case *types.Slice:
		sv := f.val(x.X)
		if sv.S == "BS" {
			if x.High != nil {
				hi = f.val(x.High).T
			} else {
				hi = fmt.Sprintf("(blen (bs.val %s))", sv.T)
			}
			// value semantics: capacity is not tracked; bound by length (stricter than Go's cap rule)
			f.oblige("safe", "slice", f.autoTags(), fmt.Sprintf("(and (<= 0 %s) (<= %s %s) (<= %s (blen (bs.val %s))))", lo, lo, hi, hi, sv.T), "")
			f.setVal(x, fmt.Sprintf("(mkBS (bs.nil %s) (take (drop (bs.val %s) %s) (- %s %s)))", sv.T, sv.T, lo, hi, lo))
			return
		}
		if x.High != nil {
			hi = f.val(x.High).T
		} else {
			hi = fmt.Sprintf("(sl.len %s)", sv.T)
		}
		if x.Max != nil {
			max = f.val(x.Max).T
		} else {
			max = fmt.Sprintf("(sl.cap %s)", sv.T)
		}
		f.oblige("safe", "slice", f.autoTags(), fmt.Sprintf("(and (<= 0 %s) (<= %s %s) (<= %s %s) (<= %s (sl.cap %s)))", lo, lo, hi, hi, max, max, sv.T), "")
		f.setVal(x, fmt.Sprintf("(mkSlice (sl.arr %s) (+ (sl.off %s) %s) (- %s %s) (- %s %s))", sv.T, sv.T, lo, hi, lo, max, lo))
		if p, ok := f.provs[x.X]; ok {
			f.provs[x] = p
		}
	case *types.Basic: // string
		sv := f.val(x.X)
		if x.High != nil {
			hi = f.val(x.High).T
		} else {
			hi = fmt.Sprintf("(blen %s)", sv.T)
		}
		f.oblige("safe", "slice", f.autoTags(), fmt.Sprintf("(and (<= 0 %s) (<= %s %s) (<= %s (blen %s)))", lo, lo, hi, hi, sv.T), "")
		f.setVal(x, fmt.Sprintf("(take (drop %s %s) (- %s %s))", sv.T, lo, hi, lo))
	case *types.Pointer:
		arr := xt.Elem().Underlying().(*types.Array)
		base := f.addrOf(x.X)
		if isByte(arr.Elem()) {
			// slice over a byte array: value semantics, remember the origin for write-back
			cur := f.load(base)
			if x.High != nil {
				hi = f.val(x.High).T
			} else {
				hi = fmt.Sprintf("%d", arr.Len())
			}
			f.oblige("safe", "slice", f.autoTags(), fmt.Sprintf("(and (<= 0 %s) (<= %s %s) (<= %s %d))", lo, lo, hi, hi, arr.Len()), "")
			f.setVal(x, fmt.Sprintf("(mkBS false (take (drop %s %s) (- %s %s)))", cur.T, lo, hi, lo))
			if x.Low == nil {
				f.byteOrigin[x] = base
			}
			return
		}
		if x.High != nil {
			hi = f.val(x.High).T
		} else {
			hi = fmt.Sprintf("%d", arr.Len())
		}
		f.oblige("safe", "slice", f.autoTags(), fmt.Sprintf("(and (<= 0 %s) (<= %s %s) (<= %s %d))", lo, lo, hi, hi, arr.Len()), "")
		f.setVal(x, fmt.Sprintf("(mkSlice %s %s (- %s %s) (- %d %s))", base.Ref, lo, hi, lo, arr.Len(), lo))
		f.smallArr[x] = smallArrInfo{ref: base.Ref, n: int(arr.Len()), full: x.Low == nil && x.High == nil}
	default:
		f.fail("Slice of %T", xt)
	}
}

type smallArrInfo struct {
	ref  string
	n    int
	full bool
}

func (f *FnEnc) doMakeSlice(x *ssa.MakeSlice) {
	ln := f.val(x.Len).T
	cp := f.val(x.Cap).T
	st := x.Type().Underlying().(*types.Slice)
	f.oblige("safe", "makeslice", f.autoTags(), fmt.Sprintf("(and (<= 0 %s) (<= %s %s))", ln, ln, cp), "")
	if isByte(st.Elem()) {
		c := f.fresh("zeros", "Bytes")
		f.assume(fmt.Sprintf("(= (blen %s) %s)", c, ln))
		f.setVal(x, fmt.Sprintf("(mkBS false %s)", c))
		return
	}
	r := f.alloc()
	ac := f.e.reg.arrComp(st.Elem())
	es := f.e.reg.sortOf(st.Elem())
	zero := f.e.reg.zeroOf(st.Elem())
	zero = strings.ReplaceAll(strings.ReplaceAll(zero, "anil", "(mkAny 0 0)"), "slnil", "(mkSlice 0 0 0 0)")
	f.setComp(ac, fmt.Sprintf("(store %s %s ((as const (Array Int %s)) %s))", f.comp(ac), r, es, zero), f.compSort(ac))
	f.setVal(x, fmt.Sprintf("(mkSlice %s 0 %s %s)", r, ln, cp))
}

func (f *FnEnc) doMakeInterface(x *ssa.MakeInterface) {
	v := f.val(x.X)
	t := x.X.Type()
	tid := f.e.reg.tid(t)
	if cl, ok := f.clos[x.X]; ok {
		f.clos[x] = cl
	}
	if f.e.reg.isStruct(t) {
		// box the struct value in a fresh immutable value cell
		r := f.alloc()
		comp := "Box." + v.S
		f.writeField(comp, r, v.T)
		f.setVal(x, fmt.Sprintf("(mkAny %d %s)", tid, r))
		return
	}
	if v.S == "Int" {
		f.setVal(x, fmt.Sprintf("(mkAny %d %s)", tid, v.T))
		return
	}
	if v.S == "Bool" {
		f.setVal(x, fmt.Sprintf("(mkAny %d (ite %s 1 0))", tid, v.T))
		return
	}
	f.setVal(x, fmt.Sprintf("(mkAny %d (box_%s %s))", tid, v.S, v.T))
}

func (f *FnEnc) storeStructNoGuard(t types.Type, ref, v string) {
	saved := f.noGuard
	f.noGuard = true
	f.storeStruct(t, ref, v)
	f.noGuard = saved
}

// fromAny converts the payload of interface value a to static type t.
func (f *FnEnc) fromAny(t types.Type, a string) string {
	s := f.e.reg.sortOf(t)
	if f.e.reg.isStruct(t) {
		return f.readField("Box."+s, fmt.Sprintf("(a.val %s)", a))
	}
	switch s {
	case "Int":
		return fmt.Sprintf("(a.val %s)", a)
	case "Bool":
		return fmt.Sprintf("(= (a.val %s) 1)", a)
	}
	return fmt.Sprintf("(unbox_%s (a.val %s))", s, a)
}

func (f *FnEnc) doTypeAssert(x *ssa.TypeAssert) {
	a := f.val(x.X)
	at := x.AssertedType
	var ok string
	var val string
	if types.IsInterface(at) {
		it := at.Underlying().(*types.Interface)
		if it.NumMethods() == 0 {
			ok = fmt.Sprintf("(not (= (a.tid %s) 0))", a.T)
		} else {
			ok = fmt.Sprintf("(implements.%s (a.tid %s))", sanitize(f.e.reg.shortTypeName(at)), a.T)
			f.e.needImplements(sanitize(f.e.reg.shortTypeName(at)))
		}
		val = a.T
	} else {
		tid := f.e.reg.tid(at)
		ok = fmt.Sprintf("(= (a.tid %s) %d)", a.T, tid)
		val = f.fromAny(at, a.T)
	}
	s := f.e.reg.sortOf(at)
	if x.CommaOk {
		okn := f.def(x.Name()+".ok", "Bool", ok)
		zero := f.e.reg.zeroOf(at)
		vn := f.def(x.Name()+".v", s, fmt.Sprintf("(ite %s %s %s)", okn, val, zero))
		f.tuples[x] = []Val{{vn, s}, {okn, "Bool"}}
		if tf := f.typeFacts(at, vn); tf != "true" && !types.IsInterface(at) {
			f.assume(tf)
		}
		return
	}
	f.oblige("safe", "typeassert", f.autoTags(), ok, "")
	f.vals[x] = Val{f.def(x.Name(), s, val), s}
	if tf := f.typeFacts(at, f.vals[x].T); tf != "true" && !types.IsInterface(at) {
		f.assume(tf)
	}
}

func (f *FnEnc) doConvert(x *ssa.Convert) {
	v := f.val(x.X)
	from, to := x.X.Type().Underlying(), x.Type().Underlying()
	switch tt := to.(type) {
	case *types.Basic:
		if tt.Info()&types.IsInteger != 0 {
			if fb, ok := from.(*types.Basic); ok && fb.Info()&types.IsInteger != 0 {
				lo, hi := intRange(tt)
				flo, fhi := intRange(fb)
				_ = flo
				_ = fhi
				mod, signed, _ := intModulus(tt)
				// exact conversion semantics: wrap into the target range
				var t string
				if !signed {
					t = fmt.Sprintf("(mod %s %s)", v.T, mod)
				} else {
					half := hi
					t = fmt.Sprintf("(- (mod (+ %s %s 1) %s) %s 1)", v.T, half, mod, half)
				}
				// common case: value already in range -> identity (helps the solver)
				f.setVal(x, fmt.Sprintf("(ite (and (<= %s %s) (<= %s %s)) %s %s)", lo, v.T, v.T, hi, v.T, t))
				return
			}
		}
		if tt.Info()&types.IsString != 0 {
			if v.S == "BS" {
				f.setVal(x, fmt.Sprintf("(bs.val %s)", v.T))
				return
			}
			if v.S == "Bytes" {
				f.vals[x] = v
				return
			}
		}
	case *types.Slice:
		if isByte(tt.Elem()) && v.S == "Bytes" {
			f.setVal(x, fmt.Sprintf("(mkBS false %s)", v.T))
			return
		}
		if v.S == f.e.reg.sortOf(x.Type()) {
			f.vals[x] = v
			return
		}
	}
	if v.S == f.e.reg.sortOf(x.Type()) {
		f.vals[x] = v
		return
	}
	f.fail("unsupported conversion %s -> %s", x.X.Type(), x.Type())
}

func (f *FnEnc) doLookup(x *ssa.Lookup) {
	mt, ok := x.X.Type().Underlying().(*types.Map)
	if !ok {
		f.fail("string index lookup unsupported")
		return
	}
	m := f.val(x.X).T
	k := f.val(x.Index).T
	mc, hc := f.e.reg.mapComp(mt)
	// a nil map has no keys (reading it is legal in Go and finds nothing)
	has := fmt.Sprintf("(and (not (= %s 0)) (select (select %s %s) %s))", m, f.comp(hc), m, k)
	zero := f.e.reg.zeroOf(mt.Elem())
	v := fmt.Sprintf("(ite %s (select (select %s %s) %s) %s)", has, f.comp(mc), m, k, zero)
	s := f.e.reg.sortOf(mt.Elem())
	if x.CommaOk {
		f.tuples[x] = []Val{{f.def("mv", s, v), s}, {f.def("mok", "Bool", has), "Bool"}}
		return
	}
	f.vals[x] = Val{f.def(x.Name(), s, v), s}
}

func (f *FnEnc) doMapUpdate(x *ssa.MapUpdate) {
	mt := x.Map.Type().Underlying().(*types.Map)
	m := f.val(x.Map).T
	k := f.val(x.Key).T
	v := f.val(x.Value).T
	f.oblige("safe", "nilmap", f.autoTags(), fmt.Sprintf("(not (= %s 0))", m), "")
	mc, hc := f.e.reg.mapComp(mt)
	f.setComp(mc, fmt.Sprintf("(store %s %s (store (select %s %s) %s %s))", f.comp(mc), m, f.comp(mc), m, k, v), f.compSort(mc))
	f.setComp(hc, fmt.Sprintf("(store %s %s (store (select %s %s) %s true))", f.comp(hc), m, f.comp(hc), m, k), f.compSort(hc))
}

func (f *FnEnc) doMakeClosure(x *ssa.MakeClosure) {
	f.clos[x] = x
	fn := x.Fn.(*ssa.Function)
	f.vals[x] = Val{fmt.Sprintf("%d", f.e.fnId(fn.String())), "Int"}
}

func (f *FnEnc) doReturn(x *ssa.Return) {
	var res []Val
	for _, r := range x.Results {
		res = append(res, f.val(r))
	}
	f.checkPost(res)
}
