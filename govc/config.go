package main

import (
	"fmt"
	"os"
	"regexp"
	"sort"
	"strings"
)

func (e *Eng) needImplements(name string) {
	e.extraDecl(fmt.Sprintf("(declare-fun implements.%s (Int) Bool)", name))
}

func (e *Eng) needSprintf(n int) {
	args := "Bytes"
	for i := 0; i < n; i++ {
		args += " Any"
	}
	e.extraDecl(fmt.Sprintf("(declare-fun sprintf%d (%s) Bytes)", n, args))
}

func (e *Eng) extraDecl(d string) {
	if e.extra == nil {
		e.extra = map[string]bool{}
	}
	e.extra[d] = true
}

func (e *Eng) extraDecls() string {
	var ds []string
	for d := range e.extra {
		ds = append(ds, d)
	}
	sort.Strings(ds)
	return strings.Join(ds, "\n") + "\n"
}

// configure interprets the top-level directives of the contract files.
func (e *Eng) configure() error {
	for _, d := range e.cs.Directives {
		kw, rest, src := d[0], d[1], d[2]
		switch kw {
		case "constfield":
			comp, val := splitHead(rest)
			c, ok := e.reg.comps[comp]
			if !ok {
				return fmt.Errorf("%s: constfield: unknown component %s", src, comp)
			}
			el := strings.TrimSuffix(strings.TrimPrefix(c.Sort, "(Array Int "), ")")
			e.consts[comp] = fmt.Sprintf("((as const (Array Int %s)) %s)", el, val)
		case "guardrule":
			// guardrule NAME [tags] comps=A,B [elem] [funcs=F,G] EXPR
			name, r2 := splitHead(rest)
			g := &GuardRule{Name: name, Comps: map[string]bool{}}
			r2 = strings.TrimSpace(r2)
			if strings.HasPrefix(r2, "[") {
				j := strings.Index(r2, "]")
				g.Tags = strings.FieldsFunc(r2[1:j], func(r rune) bool { return r == ',' || r == ' ' })
				r2 = strings.TrimSpace(r2[j+1:])
			}
			for {
				w, r3 := splitHead(r2)
				if strings.HasPrefix(w, "comps=") {
					for _, c := range strings.Split(strings.TrimPrefix(w, "comps="), ",") {
						if _, ok := e.reg.comps[c]; !ok {
							return fmt.Errorf("%s: guardrule %s: unknown component %s", src, name, c)
						}
						g.Comps[c] = true
					}
					r2 = r3
					continue
				}
				if w == "elem" {
					g.Elem = true
					r2 = r3
					continue
				}
				if strings.HasPrefix(w, "funcs=") {
					g.Funcs = map[string]bool{}
					for _, fn := range strings.Split(strings.TrimPrefix(w, "funcs="), ",") {
						g.Funcs[fn] = true
					}
					r2 = r3
					continue
				}
				break
			}
			ex, err := parseOneSX(r2)
			if err != nil {
				return fmt.Errorf("%s: guardrule %s: %v", src, name, err)
			}
			g.Expr = ex
			e.guards = append(e.guards, g)
		}
	}
	return nil
}

// lemmaEnc builds the pseudo function holding lemma and induction obligations. A lemma is proved
// from the axioms of its own theory and the earlier lemmas of that theory.
func (e *Eng) lemmaEnc(want func([]string) bool) *FnEnc {
	f := &FnEnc{e: e, name: "lemma", kindN: map[string]int{}}
	// vacuity guard for the theory prelude: it must not be refutable on its own
	all := []string{}
	seen := map[string]bool{}
	for _, p := range e.cs.Prelude {
		if p.Theory != "" && !seen[p.Theory] {
			seen[p.Theory] = true
			all = append(all, p.Theory)
		}
	}
	f.out.WriteString(e.theoryText(all))
	f.obls = append(f.obls, &Obligation{Func: "lemma", Kind: "cover", Label: "prelude", Name: "prelude/cover/consistent", Pos: f.out.Len(), Block: -1, At: "true", Goal: "true", Cover: true, Src: "prelude", LongCover: true})
	for _, l := range e.cs.Lemmas {
		if want(l.Tags) {
			f.obls = append(f.obls, &Obligation{Func: "lemma", Kind: "lemma", Label: l.Label, Name: "lemma/" + l.Label, Tags: l.Tags, Pos: f.out.Len(), Block: -1, At: "true", Goal: l.Expr.String(), Src: l.Src})
		}
		fmt.Fprintf(&f.out, "(assert %s)\n", l.Expr.String())
	}
	for _, in := range e.cs.Inducts {
		body := in.Body.String()
		if want(in.Tags) {
			base := fmt.Sprintf("(let ((%s 0)) %s)", in.Var, body)
			step := fmt.Sprintf("(forall ((%s Int)) (=> (and (>= %s 0) %s) (let ((%s (+ %s 1))) %s)))", in.Var, in.Var, body, in.Var, in.Var, body)
			f.obls = append(f.obls, &Obligation{Func: "lemma", Kind: "lemma", Label: in.Label + ".base", Name: "lemma/" + in.Label + ".base", Tags: in.Tags, Pos: f.out.Len(), Block: -1, At: "true", Goal: base, Src: in.Src})
			f.obls = append(f.obls, &Obligation{Func: "lemma", Kind: "lemma", Label: in.Label + ".step", Name: "lemma/" + in.Label + ".step", Tags: in.Tags, Pos: f.out.Len(), Block: -1, At: "true", Goal: step, Src: in.Src})
		}
		fmt.Fprintf(&f.out, "(assert (forall ((%s Int)) (=> (>= %s 0) %s)))\n", in.Var, in.Var, body)
	}
	return f
}

// lemmaAxioms returns the axioms and lemma conclusions of the used theories (unscoped lemmas are
// always included).
func (e *Eng) lemmaAxioms(uses []string) string {
	var b strings.Builder
	b.WriteString(e.theoryText(uses))
	for _, l := range e.cs.Lemmas {
		if l.Theory == "" || hasTag(uses, l.Theory) {
			fmt.Fprintf(&b, "(assert %s) ; lemma %s\n", l.Expr.String(), l.Label)
		}
	}
	for _, in := range e.cs.Inducts {
		if in.Theory == "" || hasTag(uses, in.Theory) {
			fmt.Fprintf(&b, "(assert (forall ((%s Int)) (=> (>= %s 0) %s))) ; induct %s\n", in.Var, in.Var, in.Body.String(), in.Label)
		}
	}
	return b.String()
}

var smtBuiltins = map[string]bool{"and": true, "or": true, "not": true, "=>": true, "=": true, "<": true, "<=": true, ">": true, ">=": true,
	"+": true, "-": true, "*": true, "div": true, "mod": true, "ite": true, "let": true, "forall": true, "exists": true, "select": true,
	"store": true, "distinct": true, "true": true, "false": true, "!": true, "as": true, "const": true, "Array": true, "Int": true, "Bool": true,
	"xor": true, "abs": true}

// unresolved lists the free identifiers of expr that are neither bound by env, nor bound
// variables, nor symbols of the prelude.
func (e *Eng) unresolved(expr *SX, env map[string]string) []string {
	if e.known == nil {
		e.known = map[string]bool{}
		txt := basePrelude + bytesAxioms + e.reg.declStructs() + e.reg.declHeap()
		for _, p := range e.cs.Prelude {
			txt += p.Text + "\n"
		}
		if all, err := parseAllSX(txt); err == nil {
			for _, x := range all {
				x.atoms(e.known)
			}
		}
	}
	var out []string
	seen := map[string]bool{}
	var walk func(x *SX, bound map[string]bool)
	walk = func(x *SX, bound map[string]bool) {
		if x == nil {
			return
		}
		if !x.IsL {
			a := x.Atom
			if a == "" || bound[a] || smtBuiltins[a] || e.known[a] {
				return
			}
			if _, ok := env[a]; ok {
				return
			}
			c := a[0]
			if (c >= '0' && c <= '9') || c == ':' || c == '"' || c == '#' {
				return
			}
			if strings.HasPrefix(a, "strlit") || strings.HasPrefix(a, "tid.") || strings.HasPrefix(a, "fid.") || strings.HasPrefix(a, "sprintf") || strings.HasPrefix(a, "implements.") || strings.HasPrefix(a, "mk_") || strings.HasPrefix(a, "box_") || strings.HasPrefix(a, "unbox_") || strings.HasPrefix(a, "deref.") {
				return
			}
			if !seen[a] {
				seen[a] = true
				out = append(out, a)
			}
			return
		}
		if len(x.List) >= 3 && !x.List[0].IsL && (x.List[0].Atom == "forall" || x.List[0].Atom == "exists" || x.List[0].Atom == "let") && x.List[1].IsL {
			b2 := map[string]bool{}
			for k := range bound {
				b2[k] = true
			}
			for _, bd := range x.List[1].List {
				if bd.IsL && len(bd.List) > 0 {
					if x.List[0].Atom == "let" && len(bd.List) == 2 {
						walk(bd.List[1], bound)
					}
					b2[bd.List[0].Atom] = true
				}
			}
			for _, c := range x.List[2:] {
				walk(c, b2)
			}
			return
		}
		for _, c := range x.List {
			walk(c, bound)
		}
	}
	walk(expr, map[string]bool{})
	return out
}

var strLitRe = regexp.MustCompile(`"[^"]*"`)

// strLitSubst replaces SMT string literals in contract text by the string-literal constants.
func (e *Eng) strLitSubst(t string) string {
	if !strings.Contains(t, "\"") {
		return t
	}
	return strLitRe.ReplaceAllStringFunc(t, func(m string) string {
		return e.strLit(m[1 : len(m)-1])
	})
}

// macroComps maps every prelude define-fun to the heap components it (transitively) mentions.
func (e *Eng) macroComps() map[string]map[string]bool {
	if e.macros != nil {
		return e.macros
	}
	e.macros = map[string]map[string]bool{}
	direct := map[string]map[string]bool{}
	var names []string
	for _, p := range e.cs.Prelude {
		x, err := parseOneSX(p.Text)
		if err != nil || !x.IsL || len(x.List) < 3 || x.List[0].Atom != "define-fun" {
			continue
		}
		name := x.List[1].Atom
		at := map[string]bool{}
		x.atoms(at)
		direct[name] = at
		names = append(names, name)
	}
	var resolve func(n string, seen map[string]bool) map[string]bool
	resolve = func(n string, seen map[string]bool) map[string]bool {
		if r, ok := e.macros[n]; ok {
			return r
		}
		out := map[string]bool{}
		if seen[n] {
			return out
		}
		seen[n] = true
		for a := range direct[n] {
			if _, ok := e.reg.comps[a]; ok {
				out[a] = true
			}
			if strings.HasSuffix(a, ".at") {
				if _, ok := e.reg.comps[strings.TrimSuffix(a, ".at")]; ok {
					out[strings.TrimSuffix(a, ".at")] = true
				}
			}
			if _, ok := direct[a]; ok && a != n {
				for c := range resolve(a, seen) {
					out[c] = true
				}
			}
		}
		e.macros[n] = out
		return out
	}
	for _, n := range names {
		resolve(n, map[string]bool{})
	}
	return e.macros
}

// compsOfText returns the components mentioned (directly or through macros) by the atoms.
func (e *Eng) compsOfAtoms(at map[string]bool, out map[string]bool) {
	mc := e.macroComps()
	for a := range at {
		if _, ok := e.reg.comps[a]; ok {
			out[a] = true
		}
		if strings.HasSuffix(a, ".at") {
			if _, ok := e.reg.comps[strings.TrimSuffix(a, ".at")]; ok {
				out[strings.TrimSuffix(a, ".at")] = true
			}
		}
		if strings.HasPrefix(a, "deref.") {
			srt := strings.TrimPrefix(a, "deref.")
			for n, c := range e.reg.comps {
				if c.Sort == "(Array Int "+srt+")" {
					out[n] = true
				}
			}
		}
		if m, ok := mc[a]; ok {
			for c := range m {
				out[c] = true
			}
		}
	}
}

func contractAtoms(c *Contract, at map[string]bool) {
	if c == nil {
		return
	}
	for _, l := range [][]*Clause{c.Requires, c.Ensures, c.Invs} {
		for _, cl := range l {
			cl.Expr.atoms(at)
		}
	}
	if c.SafeUnder != nil {
		c.SafeUnder.atoms(at)
	}
}

func (e *Eng) noteOnce(msg string) {
	if e.notes == nil {
		e.notes = map[string]bool{}
	}
	if !e.notes[msg] {
		e.notes[msg] = true
		fmt.Fprintln(os.Stderr, msg)
	}
}
