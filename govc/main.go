package main

import (
	"encoding/json"
	"flag"
	"fmt"
	"os"
	"path/filepath"
	"sort"
	"strings"
	"sync/atomic"
	"time"
)

type pkgRun struct {
	dir  string
	pat  string
	cs   *ContractSet
	eng  *Eng
	encs []*FnEnc
	prel string
}

type Finding struct {
	Property   string `json:"property"`
	Obligation string `json:"obligation"`
	What       string `json:"what"`
	Status     string `json:"status"` // open | fixed
	Commit     string `json:"commit,omitempty"`
}

type KnownFindings struct {
	Findings []Finding `json:"findings"`
}

func loadKnown(path string) *KnownFindings {
	kf := &KnownFindings{}
	data, err := os.ReadFile(path)
	if err != nil {
		return kf
	}
	_ = json.Unmarshal(data, kf)
	return kf
}

func main() {
	repo := flag.String("repo", "/repo", "repository root")
	prop := flag.String("prop", "", "property id (empty = all obligations)")
	tier := flag.String("tier", "quick", "quick | thorough")
	evid := flag.String("evidence", "", "evidence file to write")
	only := flag.String("func", "", "only this function")
	dump := flag.String("dump", "", "keep SMT files in this directory")
	pkgsFlag := flag.String("pkgs", ".,persist/file,persist/s3", "package dirs relative to repo")
	knownPath := flag.String("known", "/verif/known-findings.json", "known findings file")
	replayDir := flag.String("replays", "/verif/replays", "replay directory")
	workers := flag.Int("j", 4, "parallel solver processes")
	verbose := flag.Bool("v", false, "verbose")
	listOnly := flag.Bool("list", false, "list obligations only")
	flag.Parse()
	t0 := time.Now()
	timeout := 15
	if *tier == "thorough" {
		timeout = 60
	}
	if s := os.Getenv("GOVC_TIMEOUT"); s != "" {
		fmt.Sscanf(s, "%d", &timeout)
	}
	want := func(tags []string) bool { return hasTag(tags, *prop) }

	var runs []*pkgRun
	for _, pd := range strings.Split(*pkgsFlag, ",") {
		dir := filepath.Join(*repo, pd)
		cs, err := parseContractFiles(dir)
		if err != nil {
			fmt.Printf("UNDECIDED contract-parse-error %v\n", err)
			os.Exit(2)
		}
		if len(cs.Files) == 0 {
			continue
		}
		// does this package have anything for the property?
		relevant := false
		for _, c := range cs.ByName {
			if c.Abstract || c.Trusted {
				continue
			}
			if *only != "" && c.Name != *only {
				continue
			}
			if contractHasTag(c, *prop) {
				relevant = true
			}
		}
		if !relevant {
			continue
		}
		runs = append(runs, &pkgRun{dir: dir, pat: ".", cs: cs})
	}
	tmp := *dump
	if tmp == "" {
		var err error
		tmp, err = os.MkdirTemp("", "govc")
		if err != nil {
			panic(err)
		}
		defer os.RemoveAll(tmp)
	} else {
		os.MkdirAll(tmp, 0755)
	}
	// os.Exit skips deferred calls: remove the scratch directory first
	exit := func(code int) {
		if *dump == "" {
			os.RemoveAll(tmp)
		}
		os.Exit(code)
	}
	var allObls []*Obligation
	var undecided []string
	var funcsUnder []string
	trusted := map[string]bool{}
	nAssumed := 0
	for _, r := range runs {
		eng, err := loadEngine(r.dir, r.pat, r.cs)
		if err != nil {
			fmt.Printf("UNDECIDED load-error %v\n", err)
			exit(2)
		}
		r.eng = eng
		if err := eng.configure(); err != nil {
			fmt.Printf("UNDECIDED contract-config-error %v\n", err)
			exit(2)
		}
		var names []string
		for n, c := range r.cs.ByName {
			if c.Abstract {
				continue
			}
			if _, ok := eng.funcs[n]; !ok {
				fmt.Printf("UNDECIDED contract-target-missing %s (%s)\n", n, c.Src)
				exit(2)
			}
			if c.Trusted {
				if contractHasTag(c, *prop) {
					trusted["trusted contract (body not verified): "+n] = true
				}
				continue
			}
			if *only != "" && n != *only {
				continue
			}
			if contractHasTag(c, *prop) {
				names = append(names, n)
			}
		}
		sort.Strings(names)
		for _, n := range names {
			f := newFnEnc(eng, eng.funcs[n], r.cs.ByName[n], want)
			func() {
				// code outside the modelled subset must end as UNDECIDED for this function,
				// not take the whole run down
				defer func() {
					if rec := recover(); rec != nil {
						f.failed = fmt.Errorf("%s: outside the modelled subset (%v)", n, rec)
					}
				}()
				f.encode()
			}()
			if f.failed != nil {
				undecided = append(undecided, f.failed.Error())
				continue
			}
			r.encs = append(r.encs, f)
			funcsUnder = append(funcsUnder, n)
			for k := range f.trustedUsed {
				trusted["abstract/trusted callee contract: "+k] = true
			}
			for _, w := range f.waived {
				trusted["waived obligation (assumed, not proved): "+w] = true
			}
			for k := range f.unmodelled {
				trusted["callee without contract, treated as changing the whole heap: "+k+" (called from "+n+")"] = true
			}
			nAssumed += len(f.assumed)
		}
		// lemmas
		if lf := eng.lemmaEnc(want); lf != nil {
			r.encs = append(r.encs, lf)
		}
		r.prel = eng.buildPrelude()
		for _, f := range r.encs {
			encByName[f.name] = f
			prelByFunc[f.name] = r.prel
			if rel, err := filepath.Rel(*repo, r.dir); err == nil {
				pkgDirOf[f.name] = rel
			}
		}
		if *dump != "" {
			os.WriteFile(filepath.Join(tmp, "prelude_"+sanitize(r.dir)+".smt2"), []byte(r.prel), 0644)
			for _, f := range r.encs {
				os.WriteFile(filepath.Join(tmp, "fn_"+sanitize(f.name)+".smt2"), []byte(f.out.String()), 0644)
			}
		}
		for _, f := range r.encs {
			allObls = append(allObls, f.obls...)
		}
	}
	// a function whose (changed) body is outside the modelled subset is undecided; everything else
	// is still checked, and the run ends with exit 2 unless a violation is found elsewhere
	for _, u := range undecided {
		fmt.Printf("UNDECIDED %s\n", u)
	}
	if *listOnly {
		for _, ob := range allObls {
			fmt.Printf("%s [%s] %s\n", ob.Name, strings.Join(ob.Tags, ","), ob.Src)
		}
		return
	}
	// open known findings are not re-attempted in the quick tier (they are reported as
	// KNOWN-FINDING); the thorough tier attempts them like everything else
	known0 := loadKnown(*knownPath)
	// open known findings are attempted once in the thorough tier (not at all in the quick tier)
	// and never in the long sequential retry pass
	openKnownName := map[string]bool{}
	for _, k := range known0.Findings {
		if k.Status == "open" && k.Obligation != "" {
			openKnownName[k.Obligation] = true
		}
	}
	if *tier == "quick" {
		skip := map[string]bool{}
		for _, k := range known0.Findings {
			if k.Status == "open" {
				skip[k.Obligation] = true
			}
		}
		for _, r := range runs {
			for _, f := range r.encs {
				for _, ob := range f.obls {
					if skip[ob.Name] {
						ob.Result = &SolveResult{Status: "known", Tried: []string{"open known finding: not re-attempted in the quick tier"}}
					}
				}
			}
		}
	}
	for _, r := range runs {
		solveAll(r.prel, r.encs, tmp, timeout, *workers)
	}
	// second pass: obligations that timed out under parallel load are retried one at a time
	{
		var retry []*Obligation
		var retryRun []*pkgRun
		var retryEnc []*FnEnc
		for _, r := range runs {
			for _, f := range r.encs {
				for _, ob := range f.obls {
					if ob.Result != nil && !ob.Cover && (ob.Result.Status == "timeout" || ob.Result.Status == "unknown") && !openKnownName[ob.Name] {
						retry = append(retry, ob)
						retryRun = append(retryRun, r)
						retryEnc = append(retryEnc, f)
					}
				}
			}
		}
		if len(retry) > 0 && len(retry) <= 8 {
			for i, ob := range retry {
				one := &FnEnc{e: retryEnc[i].e, name: retryEnc[i].name, kindN: map[string]int{}}
				one.out.WriteString(retryEnc[i].out.String())
				one.fn, one.segs, one.anc = retryEnc[i].fn, retryEnc[i].segs, map[int]map[int]bool{}
				for b := range retryEnc[i].segs {
					one.anc[retryEnc[i].segs[b].blk] = retryEnc[i].ancestors(retryEnc[i].segs[b].blk)
				}
				one.obls = []*Obligation{ob}
				prev := ob.Result
				atomic.StoreInt32(&nFailed, 0)
				solveAll(retryRun[i].prel, []*FnEnc{one}, tmp, timeout*4, 1)
				if ob.Result != nil && ob.Result.Status != "unsat" && ob.Result.Status != "sat" {
					ob.Result.Tried = append(prev.Tried, ob.Result.Tried...)
				}
			}
		}
	}
	// report
	known := loadKnown(*knownPath)
	openKnown := map[string]Finding{}
	for _, k := range known.Findings {
		if k.Status == "open" && (k.Property == *prop || *prop == "") {
			openKnown[k.Obligation] = k
		}
	}
	nOb, nDis, nCover, nCoverOK := 0, 0, 0, 0
	slowest, slowName := 0.0, ""
	solverErrors := []string{}
	nSkipped := 0
	bySolver := map[string]int{}
	byKind := map[string]int{}
	solverTime := 0.0
	violations := []string{}
	knownHit := []string{}
	samples := []interface{}{}
	failedNames := []string{}
	os.MkdirAll(filepath.Join(*replayDir, *prop), 0755)
	for _, ob := range allObls {
		r := ob.Result
		if r == nil {
			continue
		}
		solverTime += r.Seconds
		if ob.Cover {
			nCover++
			if r.Status != "unsat" {
				nCoverOK++
			} else {
				violations = append(violations, fmt.Sprintf("VACUOUS %s: preconditions/invariants are contradictory", ob.Name))
				failedNames = append(failedNames, ob.Name)
			}
			continue
		}
		nOb++
		byKind[ob.Kind]++
		if r.Status == "unsat" {
			if r.Seconds > slowest {
				slowest, slowName = r.Seconds, ob.Name
			}
			nDis++
			bySolver[r.Solver]++
			if len(samples) < 6 {
				samples = append(samples, map[string]interface{}{"obligation": ob.Name, "kind": ob.Kind, "src": ob.Src, "solver": r.Solver, "seconds": round3(r.Seconds), "goal": trunc(ob.Goal, 300)})
			}
			continue
		}
		if *verbose && r.Status != "skipped" {
			fmt.Printf("  FAILED %s (%s) %v\n", ob.Name, r.Status, r.Tried)
		}
		if r.Status == "skipped" {
			nSkipped++
			continue
		}
		if r.Status == "error" {
			solverErrors = append(solverErrors, fmt.Sprintf("UNDECIDED solver-error %s: %s", ob.Name, firstLines(r.Output, 3)))
			continue
		}
		failedNames = append(failedNames, ob.Name)
		if k, ok := openKnown[stripOrdinal(ob.Name)]; ok {
			knownHit = append(knownHit, fmt.Sprintf("KNOWN-FINDING: property=%s %s (%s)", *prop, k.What, ob.Name))
			continue
		}
		if k, ok := openKnown[ob.Name]; ok {
			knownHit = append(knownHit, fmt.Sprintf("KNOWN-FINDING: property=%s %s (%s)", *prop, k.What, ob.Name))
			continue
		}
		// violation: write replay file
		rp := filepath.Join(*replayDir, *prop, sanitize(ob.Name)+".txt")
		suffix := " no-failing-input-found"
		var rb strings.Builder
		fmt.Fprintf(&rb, "obligation: %s\nkind: %s\nsource: %s\nfunction: %s\nstatus: %s\nsolvers: %v\ngoal: %s\n", ob.Name, ob.Kind, ob.Src, ob.Func, r.Status, r.Tried, ob.Goal)
		if r.Status == "sat" {
			model := getModel(r.File)
			fmt.Fprintf(&rb, "\n--- solver model (candidate counterexample; not replayed on the real code) ---\n%s\n", model)
		} else {
			fmt.Fprintf(&rb, "\n--- solver output ---\n%s\n", r.Output)
		}
		if rr := tryReplay(ob, r, &rb, *repo); rr {
			suffix = ""
		}
		os.WriteFile(rp, []byte(rb.String()), 0644)
		violations = append(violations, fmt.Sprintf("VIOLATION property=%s replay=%s obligation=%s status=%s%s", *prop, rp, ob.Name, r.Status, suffix))
	}
	if nOb == 0 {
		violations = append(violations, fmt.Sprintf("VIOLATION property=%s replay=none no obligations were generated (vacuous check) no-failing-input-found", *prop))
	}
	if nSkipped > 0 {
		fmt.Printf("note: %d further obligations were not attempted after %d failures\n", nSkipped, maxFailures)
	}
	for _, k := range knownHit {
		fmt.Println(k)
	}
	for _, v := range violations {
		fmt.Println(v)
	}
	wall := time.Since(t0).Seconds()
	if *verbose {
		fmt.Printf("slowest discharged obligation: %s %.2fs\n", slowName, slowest)
	}
	fmt.Printf("govc: property=%s tier=%s functions=%d obligations=%d discharged=%d known-findings=%d violations=%d covers=%d/%d wall=%.1fs solver=%.1fs\n",
		*prop, *tier, len(funcsUnder), nOb, nDis, len(knownHit), len(violations), nCoverOK, nCover, wall, solverTime)
	if *evid != "" {
		tb := []string{}
		for k := range trusted {
			tb = append(tb, k)
		}
		for _, r := range runs {
			for _, a := range r.cs.Assumes {
				tb = append(tb, "declared assumption: "+a)
			}
		}
		if *prop != "T3" {
			// closure-tier clauses of the functions in this run: assumed here, attempted by `./check T3`
			nT3 := 0
			var t3names []string
			for _, r := range runs {
				for _, n := range funcsUnder {
					c := r.cs.ByName[n]
					if c == nil {
						continue
					}
					for _, cl := range c.Requires {
						if hasTag(cl.Tags, "T3") {
							nT3++
							t3names = append(t3names, n+"/requires/"+cl.Label)
						}
					}
					for _, cl := range c.Ensures {
						if hasTag(cl.Tags, "T3") {
							nT3++
							t3names = append(t3names, n+"/ensures/"+cl.Label)
						}
					}
					for _, cl := range c.Invs {
						if hasTag(cl.Tags, "T3") {
							nT3++
							t3names = append(t3names, n+"/invariant/"+cl.Label)
						}
					}
				}
			}
			if nT3 > 0 {
				sort.Strings(t3names)
				tb = append(tb, fmt.Sprintf("closure tier T3 (tree-wide shape/path invariants carried through calls): %d clauses assumed by this run, not proved here: %s", nT3, strings.Join(t3names, ", ")))
			}
		}
		sort.Strings(tb)
		// the level is the one claimed in MANIFEST.json for this property; a proof-level claim
		// with an undischarged obligation is a violation anyway
		level := manifestCategory(*prop)
		if level == "" {
			level = "other"
		}
		if level == "proof" && nDis != nOb {
			level = "other"
		}
		expl := fmt.Sprintf("contract-based deductive verification: %d of %d obligations over %d functions under contract discharged by the solver portfolio; %d open known findings (%s); %d violations. Not covered by this check: see MANIFEST level_claimed.text and DESIGN.md.", nDis, nOb, len(funcsUnder), len(knownHit), strings.Join(failedNames, ", "), len(violations))
		cov := map[string]interface{}{
			"obligations":              nOb,
			"discharged":               nDis,
			"checker_cmd":              fmt.Sprintf("govc -prop %s -tier %s (go/ssa VC generation over %s working tree; z3 4.8.12 / z3 5.1.0 / cvc5 1.0 portfolio, %ds per solver)", *prop, *tier, *repo, timeout),
			"trusted_base":             tb,
			"functions_under_contract": funcsUnder,
			"obligations_by_kind":      byKind,
			"discharged_by_solver":     bySolver,
			"solver_seconds":           round3(solverTime),
			"vacuity_covers":           fmt.Sprintf("%d of %d precondition covers not refuted", nCoverOK, nCover),
			"samples":                  samples,
			"failed_obligations":       failedNames,
			"known_findings_hit":       knownHit,
			"integer_model":            "mathematical integers with exact wrap-around for 8/16/32-bit types and unsigned subtraction; 64-bit + and * treated as mathematical",
		}
		cov["undecided_functions"] = undecided
		cov["solver_queries_fresh"] = int(atomic.LoadInt32(&nFresh))
		cov["verdicts_reused"] = int(atomic.LoadInt32(&nReused))
		cov["verdict_store"] = "unsat answers are stored under the SHA-256 of the complete query text and reused when the regenerated query is byte-identical (the quick tier consults the store first; the thorough tier asks the solvers first and falls back to the store only on a timeout)"
		cov["explanation"] = expl
		mergeBounded(cov, *prop)
		ev := map[string]interface{}{
			"property_id": *prop,
			"tier":        *tier,
			"seed":        seedFromEnv(),
			"level":       level,
			"coverage":    cov,
			"assumptions": tb,
			"wall_s":      round3(wall),
			"violations":  len(violations),
		}
		data, _ := json.MarshalIndent(ev, "", " ")
		os.MkdirAll(filepath.Dir(*evid), 0755)
		os.WriteFile(*evid, data, 0644)
	}
	// a reported violation decides the exit code even when other obligations hit a tool error
	if len(violations) > 0 {
		exit(1)
	}
	if len(solverErrors) > 0 {
		for i, e := range solverErrors {
			if i < 5 {
				fmt.Println(e)
			}
		}
		fmt.Printf("UNDECIDED %d obligations could not be parsed by any solver (tool error, not a verdict)\n", len(solverErrors))
		exit(2)
	}
	if len(undecided) > 0 {
		exit(2)
	}
}

func seedFromEnv() int {
	var s int
	fmt.Sscanf(os.Getenv("VERIF_SEED"), "%d", &s)
	return s
}

func round3(x float64) float64 {
	return float64(int(x*1000)) / 1000
}

func trunc(s string, n int) string {
	if len(s) > n {
		return s[:n] + "…"
	}
	return s
}

func stripOrdinal(s string) string {
	if i := strings.LastIndex(s, "#"); i > 0 {
		return s[:i]
	}
	return s
}

func contractHasTag(c *Contract, p string) bool {
	if p == "" {
		return true
	}
	if hasTag(c.Tags, p) {
		return true
	}
	for _, cl := range c.Requires {
		if hasTag(cl.Tags, p) {
			return true
		}
	}
	for _, cl := range c.Ensures {
		if hasTag(cl.Tags, p) {
			return true
		}
	}
	for _, cl := range c.Invs {
		if hasTag(cl.Tags, p) {
			return true
		}
	}
	return false
}

// mergeBounded merges a bounded stand-in report (written by the bounded harness) into coverage.
func mergeBounded(cov map[string]interface{}, prop string) {
	path := os.Getenv("GOVC_BOUNDED_REPORT")
	if path == "" {
		return
	}
	data, err := os.ReadFile(path)
	if err != nil {
		return
	}
	var m map[string]interface{}
	if json.Unmarshal(data, &m) == nil {
		cov["bounded"] = m
	}
}

// manifestCategory reads the level claimed for prop in /verif/MANIFEST.json.
func manifestCategory(prop string) string {
	data, err := os.ReadFile("/verif/MANIFEST.json")
	if err != nil {
		return ""
	}
	var m struct {
		Checks []struct {
			PropertyID   string `json:"property_id"`
			LevelClaimed struct {
				Category string `json:"category"`
			} `json:"level_claimed"`
		} `json:"checks"`
	}
	if json.Unmarshal(data, &m) != nil {
		return ""
	}
	for _, c := range m.Checks {
		if c.PropertyID == prop {
			return c.LevelClaimed.Category
		}
	}
	return ""
}
