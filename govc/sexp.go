package main

import (
	"fmt"
	"strings"
)

// SX is an s-expression: either an atom or a list.
type SX struct {
	Atom string
	List []*SX
	IsL  bool
}

func (s *SX) String() string {
	if s == nil {
		return "()"
	}
	if !s.IsL {
		return s.Atom
	}
	var b strings.Builder
	s.write(&b)
	return b.String()
}

func (s *SX) write(b *strings.Builder) {
	if !s.IsL {
		b.WriteString(s.Atom)
		return
	}
	b.WriteByte('(')
	for i, c := range s.List {
		if i > 0 {
			b.WriteByte(' ')
		}
		c.write(b)
	}
	b.WriteByte(')')
}

// parseSX parses one s-expression from src starting at *pos.
func parseSX(src string, pos *int) (*SX, error) {
	skipWS(src, pos)
	if *pos >= len(src) {
		return nil, fmt.Errorf("unexpected end of input")
	}
	c := src[*pos]
	switch {
	case c == '(':
		*pos++
		l := &SX{IsL: true}
		for {
			skipWS(src, pos)
			if *pos >= len(src) {
				return nil, fmt.Errorf("unbalanced parenthesis")
			}
			if src[*pos] == ')' {
				*pos++
				return l, nil
			}
			e, err := parseSX(src, pos)
			if err != nil {
				return nil, err
			}
			l.List = append(l.List, e)
		}
	case c == ')':
		return nil, fmt.Errorf("unexpected ) at %d", *pos)
	case c == '"':
		st := *pos
		*pos++
		for *pos < len(src) && src[*pos] != '"' {
			*pos++
		}
		*pos++
		return &SX{Atom: src[st:*pos]}, nil
	case c == '|':
		st := *pos
		*pos++
		for *pos < len(src) && src[*pos] != '|' {
			*pos++
		}
		*pos++
		return &SX{Atom: src[st:*pos]}, nil
	default:
		st := *pos
		for *pos < len(src) {
			c := src[*pos]
			if c == '(' || c == ')' || c == ' ' || c == '\t' || c == '\n' || c == '\r' || c == ';' {
				break
			}
			*pos++
		}
		return &SX{Atom: src[st:*pos]}, nil
	}
}

func skipWS(src string, pos *int) {
	for *pos < len(src) {
		c := src[*pos]
		if c == ' ' || c == '\t' || c == '\n' || c == '\r' {
			*pos++
		} else if c == ';' {
			for *pos < len(src) && src[*pos] != '\n' {
				*pos++
			}
		} else {
			return
		}
	}
}

func parseOneSX(src string) (*SX, error) {
	p := 0
	e, err := parseSX(src, &p)
	if err != nil {
		return nil, err
	}
	skipWS(src, &p)
	if p != len(src) {
		return nil, fmt.Errorf("trailing input after s-expression: %q", src[p:])
	}
	return e, nil
}

func parseAllSX(src string) ([]*SX, error) {
	var out []*SX
	p := 0
	for {
		skipWS(src, &p)
		if p >= len(src) {
			return out, nil
		}
		e, err := parseSX(src, &p)
		if err != nil {
			return nil, err
		}
		out = append(out, e)
	}
}

// balanced reports whether the parentheses in s are balanced (and >0 seen or atom).
func balanced(s string) bool {
	d := 0
	inStr := false
	for i := 0; i < len(s); i++ {
		c := s[i]
		if inStr {
			if c == '"' {
				inStr = false
			}
			continue
		}
		switch c {
		case '"':
			inStr = true
		case '(':
			d++
		case ')':
			d--
		case ';':
			for i < len(s) && s[i] != '\n' {
				i++
			}
		}
	}
	return d == 0
}

// subst returns a copy of s with atoms replaced according to env. Bound variables
// of quantifiers/lets shadow env entries.
func (s *SX) subst(env map[string]string) *SX {
	if s == nil {
		return nil
	}
	if !s.IsL {
		if v, ok := env[s.Atom]; ok {
			return &SX{Atom: v}
		}
		return s
	}
	if len(s.List) >= 3 && !s.List[0].IsL {
		h := s.List[0].Atom
		if (h == "forall" || h == "exists") && s.List[1].IsL {
			shadow := map[string]bool{}
			for _, b := range s.List[1].List {
				if b.IsL && len(b.List) > 0 {
					shadow[b.List[0].Atom] = true
				}
			}
			env2 := env
			for k := range shadow {
				if _, ok := env[k]; ok {
					if len(env2) == len(env) {
						env2 = map[string]string{}
						for kk, vv := range env {
							env2[kk] = vv
						}
					}
					delete(env2, k)
				}
			}
			out := &SX{IsL: true, List: []*SX{s.List[0], s.List[1]}}
			for _, c := range s.List[2:] {
				out.List = append(out.List, c.subst(env2))
			}
			return out
		}
		if h == "let" && s.List[1].IsL {
			env2 := map[string]string{}
			for kk, vv := range env {
				env2[kk] = vv
			}
			binds := &SX{IsL: true}
			for _, b := range s.List[1].List {
				if b.IsL && len(b.List) == 2 {
					binds.List = append(binds.List, &SX{IsL: true, List: []*SX{b.List[0], b.List[1].subst(env)}})
					delete(env2, b.List[0].Atom)
				} else {
					binds.List = append(binds.List, b)
				}
			}
			out := &SX{IsL: true, List: []*SX{s.List[0], binds}}
			for _, c := range s.List[2:] {
				out.List = append(out.List, c.subst(env2))
			}
			return out
		}
	}
	out := &SX{IsL: true, List: make([]*SX, len(s.List))}
	for i, c := range s.List {
		out.List[i] = c.subst(env)
	}
	return out
}

// atoms collects all atoms of s into set.
func (s *SX) atoms(set map[string]bool) {
	if s == nil {
		return
	}
	if !s.IsL {
		set[s.Atom] = true
		return
	}
	for _, c := range s.List {
		c.atoms(set)
	}
}
