package main

import (
	"fmt"
	"os"

	"golang.org/x/tools/go/packages"
	"golang.org/x/tools/go/ssa"
	"golang.org/x/tools/go/ssa/ssautil"
)

func main() {
	dir := os.Args[1]
	pat := os.Args[2]
	cfg := &packages.Config{Mode: packages.LoadAllSyntax, Dir: dir, BuildFlags: []string{"-tags=verif"}}
	pkgs, err := packages.Load(cfg, pat)
	if err != nil {
		panic(err)
	}
	prog, spkgs := ssautil.AllPackages(pkgs, ssa.NaiveForm|ssa.GlobalDebug)
	prog.Build()
	for _, p := range spkgs {
		if p == nil {
			continue
		}
		if len(os.Args) > 3 {
			for _, name := range os.Args[3:] {
				for fn := range ssautil.AllFunctions(prog) {
					if fn.Pkg == p && fn.String() == name || fn.Name() == name && fn.Pkg == p {
						fn.WriteTo(os.Stdout)
					}
				}
			}
		} else {
			for fn := range ssautil.AllFunctions(prog) {
				if fn.Pkg == p {
					fmt.Println(fn.String(), len(fn.Blocks))
				}
			}
		}
	}
}
