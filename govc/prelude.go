package main

import (
	"fmt"
	"regexp"
	"sort"
	"strings"
)

const bytesAxioms = `
(assert (= (blen eps) 0))
(assert (forall ((a Bytes)) (! (>= (blen a) 0) :pattern ((blen a)))))
(assert (forall ((a Bytes)) (! (=> (= (blen a) 0) (= a eps)) :pattern ((blen a)))))
(assert (forall ((a Bytes) (b Bytes)) (! (= (blen (cat a b)) (+ (blen a) (blen b))) :pattern ((cat a b)))))
(assert (forall ((a Bytes)) (! (= (cat a eps) a) :pattern ((cat a eps)))))
(assert (forall ((a Bytes)) (! (= (cat eps a) a) :pattern ((cat eps a)))))
(assert (forall ((a Bytes) (b Bytes) (c Bytes)) (! (= (cat (cat a b) c) (cat a (cat b c))) :pattern ((cat (cat a b) c)))))
(assert (forall ((a Bytes) (b Bytes) (c Bytes)) (! (= (cat (cat a b) c) (cat a (cat b c))) :pattern ((cat a (cat b c))))))
(assert (forall ((a Bytes) (b Bytes)) (! (= (take (cat a b) (blen a)) a) :pattern ((take (cat a b) (blen a))))))
(assert (forall ((a Bytes) (b Bytes)) (! (= (drop (cat a b) (blen a)) b) :pattern ((drop (cat a b) (blen a))))))
(assert (forall ((a Bytes) (n Int)) (! (=> (and (<= 0 n) (<= n (blen a))) (and (= (blen (take a n)) n) (= (blen (drop a n)) (- (blen a) n)) (= (cat (take a n) (drop a n)) a))) :pattern ((take a n)) :pattern ((drop a n)))))
(assert (forall ((a Bytes)) (! (= (drop a 0) a) :pattern ((drop a 0)))))
(assert (forall ((a Bytes)) (! (= (take a (blen a)) a) :pattern ((take a (blen a))))))
`

const basePrelude = `
(declare-sort Bytes 0)
(declare-sort Opaque 0)
(declare-fun opaque0 () Opaque)
(declare-datatypes ((Slice 0)) (((mkSlice (sl.arr Int) (sl.off Int) (sl.len Int) (sl.cap Int)))))
(define-fun slnil () Slice (mkSlice 0 0 0 0))
(declare-fun eps () Bytes)
(declare-datatypes ((BS 0)) (((mkBS (bs.nil Bool) (bs.val Bytes)))))
(define-fun bsnil () BS (mkBS true eps))
(declare-datatypes ((Any 0)) (((mkAny (a.tid Int) (a.val Int)))))
(define-fun anil () Any (mkAny 0 0))
(define-fun isNil ((a Any)) Bool (= a (mkAny 0 0)))
(define-fun isErr ((e Any)) Bool (not (= e (mkAny 0 0))))
(define-fun wfSlice ((s Slice)) Bool (and (>= (sl.arr s) 0) (>= (sl.off s) 0) (>= (sl.len s) 0) (>= (sl.cap s) (sl.len s)) (<= (sl.cap s) 281474976710656) (=> (= (sl.arr s) 0) (and (= (sl.cap s) 0) (= (sl.off s) 0)))))
; ---- byte strings (contents abstract) ----
(declare-fun blen (Bytes) Int)
(declare-fun cat (Bytes Bytes) Bytes)
(declare-fun take (Bytes Int) Bytes)
(declare-fun drop (Bytes Int) Bytes)
(declare-fun bcmp (Bytes Bytes) Int)
(declare-fun uv (Int) Bytes)
; ---- pointers into objects and arrays ----
(declare-fun inner (Int Int) Int)
(declare-fun inner.p (Int) Int)
(declare-fun inner.k (Int) Int)
(assert (forall ((r Int) (k Int)) (! (and (= (inner.p (inner r k)) r) (= (inner.k (inner r k)) k) (< (inner r k) 0)) :pattern ((inner r k)))))
(define-fun owner ((r Int)) Int (ite (< r 0) (ite (< (inner.p r) 0) (inner.p (inner.p r)) (inner.p r)) r))
(declare-fun eptr (Int Int) Int)
(declare-fun eptr.a (Int) Int)
(declare-fun eptr.i (Int) Int)
(assert (forall ((a Int) (i Int)) (! (and (= (eptr.a (eptr a i)) a) (= (eptr.i (eptr a i)) i) (< (eptr a i) 0)) :pattern ((eptr a i)))))
; ---- dynamic types ----
(declare-fun comparable (Int) Bool)
(declare-fun deepEq (Any Any) Bool)
(declare-fun rtype (Int) Int)
(assert (= (rtype 0) 0))
(assert (forall ((t Int)) (! (=> (not (= t 0)) (not (= (rtype t) 0))) :pattern ((rtype t)))))
(declare-fun tidOfRtype (Int) Int)
(assert (forall ((t Int)) (! (= (tidOfRtype (rtype t)) t) :pattern ((rtype t)))))
`

// buildPrelude produces the full SMT prelude for a package run.
func (e *Eng) buildPrelude() string {
	var b strings.Builder
	b.WriteString("(set-option :produce-models true)\n(set-logic ALL)\n")
	b.WriteString(basePrelude)
	b.WriteString(e.reg.declStructs())
	// box/unbox for non-Int payload sorts
	var bs []string
	for s := range e.reg.boxSorts {
		bs = append(bs, s)
	}
	sort.Strings(bs)
	for _, s := range bs {
		fmt.Fprintf(&b, "(declare-fun box_%s (%s) Int)\n(declare-fun unbox_%s (Int) %s)\n", s, s, s, s)
		fmt.Fprintf(&b, "(assert (forall ((x %s)) (! (= (unbox_%s (box_%s x)) x) :pattern ((box_%s x)))))\n", s, s, s, s)
	}
	b.WriteString(e.reg.declHeap())
	b.WriteString(e.reg.declDeref())
	b.WriteString(e.reg.declTids())
	// comparable facts and pointer tids
	var ptrTids []string
	for _, k := range e.reg.tidOrd {
		id := e.reg.tids[k]
		t := e.reg.tidType[k]
		if comparableType(t) {
			fmt.Fprintf(&b, "(assert (comparable %d))\n", id)
		} else {
			fmt.Fprintf(&b, "(assert (not (comparable %d)))\n", id)
		}
		if isPointerLike(t) {
			ptrTids = append(ptrTids, fmt.Sprintf("(= t %d)", id))
		}
		fmt.Fprintf(&b, "(define-fun tid.%s () Int %d)\n", sanitize(e.reg.shortTypeName(t)), id)
	}
	if len(ptrTids) == 0 {
		b.WriteString("(define-fun isPtrTid ((t Int)) Bool false)\n")
	} else {
		fmt.Fprintf(&b, "(define-fun isPtrTid ((t Int)) Bool (or false %s))\n", strings.Join(ptrTids, " "))
	}
	fmt.Fprintf(&b, "(define-fun maxStaticTid () Int %d)\n", len(e.reg.tidOrd))
	// field ids
	var fc []string
	for c := range e.reg.fidByComp {
		fc = append(fc, c)
	}
	sort.Strings(fc)
	for _, c := range fc {
		fmt.Fprintf(&b, "(define-fun fid.%s () Int %d)\n", c, e.reg.fidByComp[c])
	}
	// string literals: declared per query (only those the query mentions), see slimPrelude
	b.WriteString(";;STRLITS;;\n")
	for n := 0; n <= 3; n++ {
		e.needSprintf(n)
	}
	b.WriteString(e.extraDecls())
	// contract-file prelude
	for _, p := range e.cs.Prelude {
		if p.Theory != "" {
			continue
		}
		b.WriteString(e.strLitSubst(p.Text))
		b.WriteString("\n")
	}
	return b.String()
}

// theoryText returns the scoped axioms of the named theories (in file order), without lemmas.
func (e *Eng) theoryText(uses []string) string {
	var b strings.Builder
	if hasTag(uses, "bytes") {
		b.WriteString(bytesAxioms)
	}
	for _, p := range e.cs.Prelude {
		if p.Theory != "" && hasTag(uses, p.Theory) {
			b.WriteString(e.strLitSubst(p.Text))
			b.WriteString("\n")
		}
	}
	return b.String()
}

var strlitRefRe = regexp.MustCompile(`strlit([0-9]+)`)

// slimPrelude instantiates the string-literal section of the prelude for one query: only the
// literals that the query text mentions are declared (keeps queries independent of what else was
// verified in the same run).
func (e *Eng) slimPrelude(prelude, body string) string {
	used := map[int]bool{}
	for _, m := range strlitRefRe.FindAllStringSubmatch(body, -1) {
		var n int
		fmt.Sscanf(m[1], "%d", &n)
		used[n] = true
	}
	for _, m := range strlitRefRe.FindAllStringSubmatch(prelude, -1) {
		var n int
		fmt.Sscanf(m[1], "%d", &n)
		used[n] = true
	}
	var ids []int
	for n := range used {
		if n < len(e.strLits) {
			ids = append(ids, n)
		}
	}
	sort.Ints(ids)
	var b strings.Builder
	for _, i := range ids {
		fmt.Fprintf(&b, "(declare-fun strlit%d () Bytes) ; %q\n(assert (= (blen strlit%d) %d))\n", i, e.strLits[i], i, len(e.strLits[i]))
		if e.strLits[i] == "" {
			fmt.Fprintf(&b, "(assert (= strlit%d eps))\n", i)
		}
	}
	if len(ids) > 1 {
		b.WriteString("(assert (distinct")
		for _, i := range ids {
			fmt.Fprintf(&b, " strlit%d", i)
		}
		b.WriteString("))\n")
	}
	return strings.Replace(prelude, ";;STRLITS;;\n", b.String(), 1)
}
