package main

import (
	"fmt"
	"go/token"
	"go/types"
	"sort"
	"strings"

	"golang.org/x/tools/go/packages"
	"golang.org/x/tools/go/ssa"
	"golang.org/x/tools/go/ssa/ssautil"
)

// Eng is the per-package verification engine.
type Eng struct {
	dir        string
	pkgPat     string
	prog       *ssa.Program
	pkg        *ssa.Package
	fset       *token.FileSet
	reg        *TypeReg
	cs         *ContractSet
	strLits    []string
	strIdx     map[string]int
	funcs      map[string]*ssa.Function // by relative name
	fnIds      map[string]int           // function value ids
	errs       []string
	guards     []*GuardRule
	consts     map[string]string // "constant fields": comp -> constant term (e.g. Mast.debug -> false)
	globalInit map[string]string
	extra      map[string]bool
	ptrField   map[int]bool // field ids whose Go type is a pointer
	known      map[string]bool
	intField   map[int]*types.Basic
	macros     map[string]map[string]bool
	notes      map[string]bool
	mtab       map[string]*Macro
}

// GuardRule is an automatic obligation attached to stores into certain heap components.
type GuardRule struct {
	Name  string
	Tags  []string
	Comps map[string]bool
	Elem  bool            // applies to element stores into arrays whose provenance is one of Comps
	Funcs map[string]bool // when non-empty: only stores inside these functions
	Expr  *SX
}

func (g *GuardRule) appliesIn(fn string) bool {
	return len(g.Funcs) == 0 || g.Funcs[fn]
}

func relFuncName(fn *ssa.Function, pkg *ssa.Package) string {
	if pkg != nil && pkg.Pkg != nil {
		return fn.RelString(pkg.Pkg)
	}
	return fn.String()
}

func loadEngine(dir, pat string, cs *ContractSet) (*Eng, error) {
	cfg := &packages.Config{Mode: packages.LoadAllSyntax, Dir: dir, BuildFlags: []string{"-tags=verif"}}
	pkgs, err := packages.Load(cfg, pat)
	if err != nil {
		return nil, err
	}
	if packages.PrintErrors(pkgs) > 0 {
		return nil, fmt.Errorf("package load errors")
	}
	prog, spkgs := ssautil.AllPackages(pkgs, ssa.NaiveForm|ssa.InstantiateGenerics)
	prog.Build()
	if len(spkgs) != 1 || spkgs[0] == nil {
		return nil, fmt.Errorf("expected exactly one package for %s", pat)
	}
	e := &Eng{dir: dir, pkgPat: pat, prog: prog, pkg: spkgs[0], fset: prog.Fset, cs: cs,
		strIdx: map[string]int{}, funcs: map[string]*ssa.Function{}, fnIds: map[string]int{}, consts: map[string]string{},
		globalInit: map[string]string{}}
	e.reg = newTypeReg(e.pkg.Pkg.Path())
	for _, d := range cs.Directives {
		if d[0] == "modelstruct" {
			for _, n := range strings.Fields(d[1]) {
				e.reg.modelled[n] = true
			}
		}
	}
	for fn := range ssautil.AllFunctions(prog) {
		if fn.Pkg == e.pkg {
			e.funcs[relFuncName(fn, e.pkg)] = fn
		}
	}
	e.prescan()
	return e, nil
}

func (e *Eng) strLit(s string) string {
	if i, ok := e.strIdx[s]; ok {
		return fmt.Sprintf("strlit%d", i)
	}
	i := len(e.strLits)
	e.strIdx[s] = i
	e.strLits = append(e.strLits, s)
	return fmt.Sprintf("strlit%d", i)
}

func (e *Eng) fnId(name string) int {
	if id, ok := e.fnIds[name]; ok {
		return id
	}
	id := len(e.fnIds) + 1
	e.fnIds[name] = id
	return id
}

// prescan registers all types, string literals and components used by the package's functions.
func (e *Eng) prescan() {
	names := make([]string, 0, len(e.funcs))
	for n := range e.funcs {
		names = append(names, n)
	}
	sort.Strings(names)
	e.reg.addComp("W", "Int", false)
	// only what the functions under contract and the contract text mention becomes part of the
	// modelled heap (keeps the Heap datatype, and every query, small)
	text := e.cs.allText()
	var memberNames []string
	for n := range e.pkg.Members {
		memberNames = append(memberNames, n)
	}
	sort.Strings(memberNames)
	for _, mn := range memberNames {
		m := e.pkg.Members[mn]
		switch x := m.(type) {
		case *ssa.Global:
			if strings.Contains(text, "G."+x.Name()) {
				t := x.Type().(*types.Pointer).Elem()
				e.reg.noteType(t)
				e.reg.addComp("G."+x.Name(), e.reg.sortOf(t), false)
			}
		case *ssa.Type:
			if _, isS := x.Type().Underlying().(*types.Struct); isS && strings.Contains(text, x.Name()+".") {
				e.reg.registerHeapStruct(x.Type())
			}
		}
	}
	for _, n := range names {
		fn := e.funcs[n]
		if c := e.cs.ByName[n]; c == nil || c.Abstract {
			continue
		}
		for _, p := range fn.Params {
			e.noteT(p.Type())
		}
		for _, fv := range fn.FreeVars {
			e.noteT(fv.Type())
		}
		for _, b := range fn.Blocks {
			for _, in := range b.Instrs {
				if v, ok := in.(ssa.Value); ok {
					e.noteT(v.Type())
				}
				var ops []*ssa.Value
				ops = in.Operands(ops)
				for _, op := range ops {
					if *op == nil {
						continue
					}
					e.noteT((*op).Type())
					if c, ok := (*op).(*ssa.Const); ok && c.Value != nil {
						if b, ok := c.Type().Underlying().(*types.Basic); ok && b.Info()&types.IsString != 0 {
							e.strLit(constString(c))
						}
					}
					if g, ok := (*op).(*ssa.Global); ok {
						t := g.Type().(*types.Pointer).Elem()
						if g.Pkg != e.pkg {
							e.reg.addComp("G."+g.Pkg.Pkg.Name()+"."+g.Name(), e.reg.sortOf(t), false)
						} else {
							e.reg.noteType(t)
							e.reg.addComp("G."+g.Name(), e.reg.sortOf(t), false)
						}
					}
				}
				switch x := in.(type) {
				case *ssa.MakeInterface:
					e.noteIfacePayload(x.X.Type())
				case *ssa.TypeAssert:
					if !types.IsInterface(x.AssertedType) {
						e.noteIfacePayload(x.AssertedType)
					}
				case *ssa.Alloc:
					if x.Heap {
						e.reg.noteType(x.Type())
					}
				case *ssa.IndexAddr:
					// arrays indexed anywhere in a function under contract get their component now
					// (the component set is frozen before encoding starts)
					switch xt := x.X.Type().Underlying().(type) {
					case *types.Slice:
						e.reg.arrComp(xt.Elem())
					case *types.Pointer:
						if arr, ok := xt.Elem().Underlying().(*types.Array); ok {
							e.reg.arrComp(arr.Elem())
						}
					}
				}
			}
		}
	}
	for _, g := range e.cs.Ghost {
		e.reg.addComp(g.Comp, g.Sort, true)
	}
	e.reg.freeze()
	e.ptrField = map[int]bool{}
	e.intField = map[int]*types.Basic{}
	for _, si := range e.reg.structOrd {
		for _, fi := range si.Fields {
			if _, isPtr := fi.Type.Underlying().(*types.Pointer); isPtr {
				e.ptrField[fi.Fid] = true
			}
			if bt, ok := fi.Type.Underlying().(*types.Basic); ok && bt.Info()&types.IsInteger != 0 {
				e.intField[fi.Fid] = bt
			}
		}
	}
}

func (e *Eng) noteT(t types.Type) {
	if t == nil {
		return
	}
	if tup, ok := t.(*types.Tuple); ok {
		for i := 0; i < tup.Len(); i++ {
			e.noteT(tup.At(i).Type())
		}
		return
	}
	e.reg.noteType(t)
}

func (e *Eng) noteIfacePayload(t types.Type) {
	if types.IsInterface(t) {
		return
	}
	e.reg.tid(t)
	s := e.reg.sortOf(t)
	if e.reg.isStruct(t) {
		e.reg.addComp("Box."+s, "(Array Int "+s+")", false)
		return
	}
	if s != "Int" {
		e.reg.boxSorts[s] = true
	}
}

func constString(c *ssa.Const) string {
	s := c.Value.ExactString()
	// ExactString gives a quoted Go string
	var out string
	_, err := fmt.Sscanf(s, "%q", &out)
	if err != nil {
		return s
	}
	return out
}

func isPointerLike(t types.Type) bool {
	switch t.Underlying().(type) {
	case *types.Pointer:
		return true
	}
	return false
}

// matchComp reports whether component name matches pattern (with trailing * wildcard).
func matchComp(pat, name string) bool {
	if pat == "*" {
		return true
	}
	if strings.HasSuffix(pat, "*") {
		return strings.HasPrefix(name, strings.TrimSuffix(pat, "*"))
	}
	return pat == name
}

func (e *Eng) compsMatching(pats []string) []string {
	out, _ := e.modSpec(pats)
	return out
}

// modSpec resolves a modifies list. A pattern may carry the suffix @fresh: the component may
// only change at references (or array ids) allocated after the function was entered.
func (e *Eng) modSpec(pats []string) ([]string, map[string]bool) {
	var out []string
	fresh := map[string]bool{}
	for _, n := range e.reg.compOrd {
		hit, full := false, false
		for _, p := range pats {
			fo := strings.HasSuffix(p, "@fresh")
			if matchComp(strings.TrimSuffix(p, "@fresh"), n) {
				hit = true
				if !fo {
					full = true
				}
			}
		}
		if hit {
			out = append(out, n)
			if !full && strings.HasPrefix(e.reg.comps[n].Sort, "(Array Int ") {
				fresh[n] = true
			}
		}
	}
	return out, fresh
}

// frameFact states that component (term) now equals old at every index <= w.
func frameFact(now, old, w string) string {
	return fmt.Sprintf("(forall ((r Int)) (! (=> (<= (owner r) %s) (= (select %s r) (select %s r))) :pattern ((select %s r))))", w, now, old, now)
}
