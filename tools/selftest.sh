#!/bin/bash
# Must-fail self-test: every kept seed (a property-breaking change that compiles and passes the
# 50-test suite) must be caught by the quick check of its property, except the ones listed in
# seeded/expected_missed.txt. Run after every change to the engine, the contracts or the harness.
# Usage: tools/selftest.sh [ids…]   (takes ~1-2 min per seed; two streams run side by side)
cd /verif
ids="$@"; [ -z "$ids" ] && ids=$(ls seeded | grep '^C' | while read i; do grep -q obsolete_after seeded/$i/meta.json || echo $i; done)
: > /tmp/selftest_a.tsv; : > /tmp/selftest_b.tsv
a=$(echo $ids | tr ' ' '\n' | awk 'NR%2==1' | tr '\n' ' '); b=$(echo $ids | tr ' ' '\n' | awk 'NR%2==0' | tr '\n' ' ')
tools/seed_matrix.sh $a & pa=$!
tools/seed_matrix.sh $b & pb=$!
wait $pa $pb
fail=0
for id in $ids; do
  line=$(grep -a "^$id	" seeded/matrix.tsv | tail -1)
  rc=$(echo "$line" | cut -f3)
  if [ "$rc" != "exit=1" ]; then
    if grep -q "^$id\b" seeded/expected_missed.txt 2>/dev/null; then echo "missed (expected): $id"; else echo "SELFTEST FAILURE: $id not caught ($line)"; fail=1; fi
  fi
done
[ $fail = 0 ] && echo "selftest ok"
exit $fail
