#!/usr/bin/env python3
"""Splices DESIGN_status.md (section 0, with the seed matrix rendered from seeded/matrix.tsv) into
DESIGN.md in front of section 1."""
import json, os, re
root = '/verif'
status = open(f'{root}/DESIGN_status.md').read()
rows = {}
if os.path.exists(f'{root}/seeded/matrix.tsv'):
    for l in open(f'{root}/seeded/matrix.tsv'):
        f = l.rstrip('\n').split('\t')
        if len(f) >= 5:
            rows[f[0]] = f  # last run wins
first_run = {}
for frf in ('matrix_round2_first_run.tsv', 'matrix_round3_first_run.tsv', 'matrix_round4_first_run.tsv', 'matrix_round5_first_run.tsv'):
    if not os.path.exists(f'{root}/seeded/{frf}'):
        continue
    for l in open(f'{root}/seeded/{frf}'):
        f = l.rstrip('\n').split('\t')
        if len(f) >= 3:
            first_run[f[0]] = f[2]
lines = ["Each seed is a change written by a sub-agent that saw only the property text (its own scratch",
         "worktree, nothing from /verif); it compiles, passes the 50-test suite and breaks the property",
         "(demonstration test in `seeded/<id>/`). `contract` = obligations that fail in the quick check of",
         "the seed's property, `bounded` = bounded stand-in signatures that fire. Produced by",
         "`tools/seed_matrix.sh` (change applied to a copy of /repo HEAD, `./check <prop> quick`, copy",
         "dropped).", "",
         "| seed | change (one line) | caught | contract obligations | bounded signatures |", "|---|---|---|---|---|"]
n_c = n_b = n_any = 0
ids = sorted(d for d in os.listdir(f'{root}/seeded') if re.match(r'C\d\d[a-z]$', d))
for i in ids:
    meta = json.load(open(f'{root}/seeded/{i}/meta.json'))
    summ = meta.get('summary', '').replace('|', '/').replace('\n', ' ')
    if len(summ) > 150:
        summ = summ[:147] + '...'
    r = rows.get(i)
    if meta.get('obsolete_after'):
        lines.append(f"| {i} | {summ} | obsolete (code removed by fix {meta['obsolete_after'].split()[0]}) | | |")
        continue
    if not r:
        lines.append(f"| {i} | {summ} | not run | | |")
        continue
    nc = int(r[3].split('=')[1]); nb = int(r[4].split('=')[1])
    oc = r[5] if len(r) > 5 else ''; ob = r[6] if len(r) > 6 else ''
    caught = 'contract+bounded' if nc and nb else 'contract' if nc else 'bounded' if nb else '**missed**'
    n_c += bool(nc); n_b += bool(nb); n_any += bool(nc or nb)
    if i in first_run and first_run[i] != 'exit=1':
        caught += ' (missed at its first run, see below)'
    lines.append(f"| {i} | {summ} | {caught} | {oc.strip()} | {ob.strip()} |")
lines += ["", f"Totals: {n_any} of {len([i for i in ids if not json.load(open(f'{root}/seeded/{i}/meta.json')).get('obsolete_after')])} applicable seeds caught ({n_c} by a failing contract obligation, {n_b} by the bounded stand-in)."]
status = status.replace('@@MATRIX@@', '\n'.join(lines))
d = open(f'{root}/DESIGN.md').read()
# drop a previous section 0
d = re.sub(r'(?s)## 0\. Status of the build.*?(?=## 1\. What is being built)', '', d)
d = d.replace("Status: design only (round 0). No framework code exists yet; everything below is the\nplan the later rounds implement. Facts marked **[probed]** were checked in this round\nwith throw-away experiments (scratch files outside /repo and /verif, removed again).",
              "Status: built. Section 0 describes what exists and what each check decides today; sections 1–9\nare the round-0 design the build followed (facts marked **[probed]** were checked in that round\nwith throw-away experiments).")
d = d.replace("Contents\n\n1. What is being built", "Contents\n\n0. Status of the build: what exists, deviations, per-property results, findings, seeds\n1. What is being built")
d = d.replace("## 1. What is being built", status + "\n---------------------------------------------------------------------------------------\n\n## 1. What is being built", 1)
open(f'{root}/DESIGN.md', 'w').write(d)
print('DESIGN.md rebuilt;', len(rows), 'matrix rows')
