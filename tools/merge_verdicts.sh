#!/bin/bash
# fold the verdicts found by recent ./check runs (.cache/local.txt) into the committed store
cd /verif
[ -f .cache/local.txt ] || exit 0
(cat verdicts/verdicts.txt; cut -d' ' -f1,2 .cache/local.txt) | sort -u > verdicts/verdicts.txt.new && mv verdicts/verdicts.txt.new verdicts/verdicts.txt
rm -f .cache/local.txt
wc -l verdicts/verdicts.txt
