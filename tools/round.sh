#!/bin/bash
# tools/round.sh <round-number> <suffix>: take the deliveries of a seeding round from /tmp/seed<N>,
# verify them against HEAD, run the matrix (three streams) and keep the first-run result.
N=$1; S=$2; cd /verif
tools/intake_seed$N.sh
ids=$(ls seeded | grep "^C[0-9][0-9]$S\$")
new=""
for id in $ids; do grep -q "^$id	" seeded/matrix.tsv 2>/dev/null || new="$new $id"; done
[ -z "$new" ] && { echo "nothing new"; exit 0; }
echo "new:$new"
tools/verify_seeds.sh $new 2>&1 | grep -v "head_clean_demo=0 suite_with_patch=0 demo_with_patch=1" | sed 's/^/NOT-VALID /'
a=$(echo $new | tr ' ' '\n' | awk 'NR%3==1' | tr '\n' ' '); b=$(echo $new | tr ' ' '\n' | awk 'NR%3==2' | tr '\n' ' '); c=$(echo $new | tr ' ' '\n' | awk 'NR%3==0' | tr '\n' ' ')
tools/seed_matrix.sh $a & p1=$!
[ -n "$b" ] && { tools/seed_matrix.sh $b & p2=$!; }
[ -n "$c" ] && { tools/seed_matrix.sh $c & p3=$!; }
wait
for id in $new; do grep "^$id	" seeded/matrix.tsv | tail -1 >> seeded/matrix_round${N}_first_run.tsv; done
grep "^C[0-9][0-9]$S	" seeded/matrix_round${N}_first_run.tsv | awk -F'\t' '{print $1,$3,$4,$5,$6,$7}' | cut -c1-200
