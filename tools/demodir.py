import json,sys
try:
    d=json.load(open(sys.argv[1])).get('demo_dir','.')
except Exception:
    d='.'
d=(d.split() or ['.'])[0].strip('/')
if d in ('','(repository','repo','root','.'): d='.'
print(d)
