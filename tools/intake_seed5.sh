#!/bin/bash
# take the deliveries of the fifth seeding round (/tmp/seed5/Cxx/out) into /verif/seeded/Cxxf
cd /verif
for d in /tmp/seed5/C*/out; do
  id=$(basename $(dirname $d))f
  [ -f $d/patch.diff ] && [ -f $d/meta.json ] || continue
  [ -d seeded/$id ] && continue
  demo=$(ls $d/*_test.go 2>/dev/null | head -1); [ -z "$demo" ] && continue
  mkdir -p seeded/$id
  cp $d/patch.diff seeded/$id/patch.diff; cp $demo seeded/$id/demo_test.go
  python3 - "$d/meta.json" "seeded/$id/meta.json" "$id" <<'PY'
import json,sys
try: m=json.load(open(sys.argv[1]))
except Exception as e: m={"summary":"(meta.json unreadable: %s)"%e}
m['seed_id']=sys.argv[3]; m['round']=5
json.dump(m,open(sys.argv[2],'w'),indent=1)
PY
  echo "took $id"
done
