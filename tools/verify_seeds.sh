#!/bin/bash
# For every kept seed: on a scratch worktree of /repo HEAD, (1) its demonstration passes without
# the change, (2) the pinned test suite passes with the change, (3) the demonstration fails with it.
# Usage: tools/verify_seeds.sh [ids…]   — results to stdout. Scratch lives in /tmp and is removed.
export GOFLAGS=-mod=mod GOPROXY=off GOSUMDB=off GOTOOLCHAIN=local
ids="$@"; [ -z "$ids" ] && ids=$(ls /verif/seeded | grep '^C')
for id in $ids; do
  d=/verif/seeded/$id
  p=$d/patch.diff; [ -f $d/patch.rebased.diff ] && p=$d/patch.rebased.diff
  wt=/tmp/vseed_$id
  rm -rf $wt; git -C /repo worktree prune; git -C /repo worktree add -q --detach $wt HEAD || { echo "$id WORKTREE-FAIL"; continue; }
  demodir=$(python3 /verif/tools/demodir.py $d/meta.json)
  [ -d $wt/$demodir ] || demodir=.
  demofile=$(ls $d/*_test.go | head -1)
  cp $demofile $wt/$demodir/zz_seed_demo_test.go
  (cd $wt/$demodir && timeout 300 go test -vet=off -count=1 -run 'TestSeedDemo' . > /tmp/vseed_${id}_clean.log 2>&1); r_clean=$?
  rm -f $wt/$demodir/zz_seed_demo_test.go
  if ! git -C $wt apply $p 2>/dev/null; then echo "$id APPLYFAIL"; git -C /repo worktree remove --force $wt; continue; fi
  (cd $wt && timeout 900 go test -vet=off -count=1 ./... > /tmp/vseed_${id}_suite.log 2>&1); r_suite=$?
  cp $demofile $wt/$demodir/zz_seed_demo_test.go
  (cd $wt/$demodir && timeout 300 go test -vet=off -count=1 -run 'TestSeedDemo' . > /tmp/vseed_${id}_mut.log 2>&1); r_mut=$?
  echo "$id head_clean_demo=$r_clean suite_with_patch=$r_suite demo_with_patch=$r_mut patch=$(basename $p)"
  git -C /repo worktree remove --force $wt; rm -f /tmp/vseed_${id}_*.log
done
