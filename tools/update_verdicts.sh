#!/bin/bash
# Rebuild the committed verdict store from scratch on the current (clean) /repo tree:
# every query is decided by the solvers again (no stored verdict is consulted), the unsat answers
# are collected, and the result replaces verdicts/verdicts.txt. Run after any change to the
# contracts, the engine or /repo. Usage: tools/update_verdicts.sh [props…]
set -u
cd /verif
export GOFLAGS=-mod=mod GOPROXY=off GOSUMDB=off GOTOOLCHAIN=local
(cd govc && go build -o /verif/bin/govc .) || exit 2
props="$@"; all=0
[ -z "$props" ] && { props="C01 C02 C03 C04 C05 C06 C07 C08 C09 C10 C11 C12 C13 C14 C15 C16 C17 C18 C19"; all=1; }
tmp=$(mktemp -d)
for p in $props; do
  GOVC_CACHE=$tmp GOVC_VERDICTS=/nonexistent bin/govc -repo /repo -prop $p -tier quick -known /verif/known-findings.json -replays $tmp/replays 2>&1 | grep '^govc:\|^VIOLATION'
done
mkdir -p verdicts
if [ $all = 1 ]; then
  cut -d' ' -f1,2 $tmp/local.txt | sort -u > verdicts/verdicts.txt
else
  (cat verdicts/verdicts.txt 2>/dev/null; cut -d' ' -f1,2 $tmp/local.txt) | sort -u > verdicts/verdicts.txt.new && mv verdicts/verdicts.txt.new verdicts/verdicts.txt
fi
wc -l verdicts/verdicts.txt
rm -rf $tmp
