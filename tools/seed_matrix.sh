#!/bin/bash
# Apply each kept seed to /repo, run the quick check of its property, undo the change.
# Usage: tools/seed_matrix.sh [ids…]; appends "id exit first-violation" lines to seeded/matrix.tsv.
# Nothing else may be using /repo's working tree while this runs.
ids="$@"; [ -z "$ids" ] && ids=$(ls /verif/seeded | grep '^C')
out=/verif/seeded/matrix.tsv
for id in $ids; do
  d=/verif/seeded/$id; prop=${id:0:3}
  p=$d/patch.diff; [ -f $d/patch.rebased.diff ] && p=$d/patch.rebased.diff
  [ -n "$(git -C /repo status --porcelain)" ] && { echo "/repo not clean, refusing"; exit 2; }
  git -C /repo apply $p || { echo -e "$id\tAPPLYFAIL" >> $out; continue; }
  log=$(mktemp)
  VERIF_EVIDENCE_DIR=/tmp/seed_matrix_ev VERIF_REPLAY_DIR=/tmp/seed_matrix_rp /verif/check $prop quick > $log 2>&1; rc=$?
  git -C /repo checkout -- .
  viol=$(grep -c '^VIOLATION' $log)
  first=$(grep '^VIOLATION' $log | head -3 | sed -E 's/.*obligation=([^ ]+).*/\1/' | tr '\n' ' ')
  sumline=$(grep '^govc:' $log | tail -1 | sed -E 's/.*(violations=[0-9]+).*(wall=[0-9.]+s).*/\1 \2/')
  echo -e "$id\t$prop\texit=$rc\tviolations=$viol\t$sumline\t$first" >> $out
  rm -f $log
done
