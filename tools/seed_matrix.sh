#!/bin/bash
# For each kept seed: put the change on a copy of /repo HEAD, run the quick check of its property
# against it, record what the check says, drop the copy. With --in-repo the change is applied to
# /repo itself (git -C /repo apply …; check; git -C /repo checkout -- .) as the brief describes;
# the default uses scratch worktrees under /tmp so that several seeds can run side by side.
# Usage: tools/seed_matrix.sh [--in-repo] [ids…]; appends lines to seeded/matrix.tsv
inrepo=0; [ "${1:-}" = "--in-repo" ] && { inrepo=1; shift; }
ids="$@"; [ -z "$ids" ] && ids=$(ls /verif/seeded | grep '^C')
out=/verif/seeded/matrix.tsv
for id in $ids; do
  d=/verif/seeded/$id; prop=${id:0:3}
  p=$d/patch.diff; [ -f $d/patch.rebased.diff ] && p=$d/patch.rebased.diff
  if [ $inrepo = 1 ]; then
    [ -n "$(git -C /repo status --porcelain)" ] && { echo "/repo not clean, refusing"; exit 2; }
    git -C /repo apply $p || { echo -e "$id\tAPPLYFAIL" >> $out; continue; }
    target=/repo
  else
    target=/tmp/seedrun_$id
    rm -rf $target; git -C /repo worktree prune
    git -C /repo worktree add -q --detach $target HEAD || { echo -e "$id\tWORKTREE-FAIL" >> $out; continue; }
    git -C $target apply $p || { echo -e "$id\tAPPLYFAIL" >> $out; git -C /repo worktree remove --force $target; continue; }
  fi
  log=$(mktemp)
  VERIF_NO_BUILD=1 VERIF_REPO=$target VERIF_EVIDENCE_DIR=/tmp/seed_matrix_ev_$id VERIF_REPLAY_DIR=/tmp/seed_matrix_rp_$id GOVC_CACHE=/tmp/seed_matrix_cache_$id /verif/check $prop quick > $log 2>&1; rc=$?
  if [ $inrepo = 1 ]; then git -C /repo checkout -- .; else git -C /repo worktree remove --force $target; fi
  [ $rc = 2 ] && cp $log /tmp/sm_fail_$id.log
  nc=$(grep -a '^VIOLATION' $log | grep -vc 'bounded')
  nb=$(grep -a '^VIOLATION' $log | grep -c 'bounded')
  firstc=$(grep -a '^VIOLATION' $log | grep -v bounded | head -3 | sed -E 's/.*obligation=([^ ]+).*/\1/' | tr '\n' ' ')
  firstb=$(grep -a '^VIOLATION' $log | grep bounded | head -3 | sed -E 's/.*bounded-check=([^ ]+).*/\1/' | tr '\n' ' ')
  echo -e "$id\t$prop\texit=$rc\tcontract=$nc\tbounded=$nb\t$firstc\t$firstb" >> $out
  rm -rf $log /tmp/seed_matrix_ev_$id /tmp/seed_matrix_rp_$id /tmp/seed_matrix_cache_$id
done
