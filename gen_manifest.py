#!/usr/bin/env python3
"""Regenerates /verif/MANIFEST.json from the table below (kept in one place so that the manifest,
the not_applicable list and DESIGN.md stay consistent)."""
import json, subprocess

props = [json.loads(l) for l in open('/verif/properties.jsonl')]
ids = [p['id'] for p in props]

# per property: (claimed?, level text, level note, technique, bounded?)
CLAIMED = {}
NA = {}

def claim(pid, text, note, technique="contract-based deductive verification: go/ssa verification conditions discharged by z3/cvc5", category="proof", design_ref="§6"):
    CLAIMED[pid] = dict(text=text, note=note, technique=technique, category=category, design_ref=design_ref)

exec(open('/verif/manifest_table.py').read())

hooks = subprocess.run(['git','-C','/repo','log','--format=%H %s'],capture_output=True,text=True).stdout.strip().split('\n')
hook_commits = [l.split()[0] for l in hooks if l.split(' ',1)[1].startswith('verif:')]

m = {
 "version": 1,
 "setup_cmd": "./setup.sh",
 "hooks": {
  "guard": "verif",
  "enable": "contract files */verif_contracts.go carry `//go:build verif`; they contain comments only (no code); govc loads /repo with -tags=verif",
  "baseline_off_cmd": "cd /repo && go test -vet=off -count=1 ./...",
  "source_commits": hook_commits,
  "add_only": True
 },
 "engines": [{"name": "govc", "path": "/verif/govc", "serves_properties": sorted(CLAIMED), "kind_free_text": "verification-condition generator over go/ssa (NaiveForm) of /repo's working tree, contracts as //@ comments in /repo/**/verif_contracts.go, obligations discharged by a z3 4.8.12 / z3 5.1.0 / cvc5 1.0 portfolio; bounded stand-ins (labelled) evaluate view-level clauses on the real code over small scopes"}],
 "checks": [],
 "not_applicable": [],
 "notes": "Every check rebuilds from /repo's working tree. Exit 0 = all claimed obligations discharged (known findings printed as KNOWN-FINDING); exit 1 + VIOLATION line = an obligation failed; exit 2 + UNDECIDED = the machinery could not speak (tool error). See DESIGN.md."
}
for pid in ids:
    if pid in CLAIMED:
        c = CLAIMED[pid]
        m["checks"].append({
         "property_id": pid,
         "quick_cmd": f"./check {pid} quick",
         "thorough_cmd": f"./check {pid} thorough",
         "evidence_file": f"/verif/evidence/{pid}.json",
         "replay_cmd_template": "cat {path}",
         "engine": "govc",
         "level_claimed": {"category": c['category'], "text": c['text'] + (" Bounded stand-in on the real code, reported under coverage.bounded and never counted as proved: " + BOUNDED[pid] + "." if pid in BOUNDED else ""), "design_ref": c['design_ref']},
         "level_note": c['note'],
         "technique": c['technique'] + ("; bounded stand-in harness (small-scope exhaustive + seeded histories, go test -overlay) for the view-level clauses" if pid in BOUNDED else ""),
        })
    else:
        m["not_applicable"].append({"property_id": pid, "reason": NA.get(pid, "no contract within reach decides this property yet (see DESIGN.md §8)")})
json.dump(m, open('/verif/MANIFEST.json','w'), indent=1)
print("claimed:", sorted(CLAIMED), "n/a:", [x['property_id'] for x in m['not_applicable']])
