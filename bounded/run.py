#!/usr/bin/env python3
"""Bounded stand-in harness runner.

usage: run.py <property> <quick|thorough> <report.json> <replay_dir>

Injects /verif/bounded/src/*.go (package mast) and /verif/bounded/src_file/*.go (package file) into
/repo's packages with `go test -overlay` (nothing is written to /repo), runs TestBounded_<property>
and turns its BOUNDED-VIOLATION lines into VIOLATION / KNOWN-FINDING lines. Everything this runner
reports is a BOUNDED check (small scopes, seeded random histories); it is merged into the evidence
under "bounded" and never counted as proof.
"""
import json, os, re, subprocess, sys, tempfile, time

prop, tier, report_path, replay_dir = sys.argv[1], sys.argv[2], sys.argv[3], sys.argv[4]
here = os.path.dirname(os.path.abspath(__file__))
repo = os.environ.get("VERIF_REPO", "/repo")

PKGS = {  # source dir -> (package dir in repo, go package path)
    "src": (".", "."),
    "src_file": ("persist/file", "./persist/file"),
}

BOUNDS = {
    "quick": "exhaustive: every history of <= 3 operations (insert/delete over keys 0..3, values 0..1) at branch factors 2 and 3 in three persistence modes; seeded random: 40 histories x 60 operations over keys 0..31, branch factors 2..5 and 16",
    "thorough": "exhaustive: every history of <= 4 operations (insert/delete over keys 0..3, values 0..1) at branch factors 2 and 3 in three persistence modes; seeded random: 400 histories x 120 operations over keys 0..31, branch factors 2..5 and 16",
}


def main():
    t0 = time.time()
    replace = {}
    targets = []
    for src, (pdir, ppath) in PKGS.items():
        d = os.path.join(here, src)
        if not os.path.isdir(d):
            continue
        names = sorted(f for f in os.listdir(d) if f.endswith(".go"))
        has = False
        for f in names:
            text = open(os.path.join(d, f)).read()
            if ("func TestBounded_%s(" % prop) in text:
                has = True
        if not has:
            continue
        for f in names:
            replace[os.path.join(repo, pdir, "zz_verif_bounded_" + f[:-3] + "_test.go")] = os.path.join(d, f)
        targets.append(ppath)
    report = {"property": prop, "tier": tier, "kind": "bounded stand-in (not proof)", "bounds": BOUNDS.get(tier, ""),
              "packages": targets, "violations": [], "known_findings": [], "stats": {}, "ran": False}
    if not targets:
        report["note"] = "no bounded test exists for this property"
        json.dump(report, open(report_path, "w"), indent=1)
        return 0
    ov = tempfile.NamedTemporaryFile("w", suffix=".json", delete=False)
    json.dump({"Replace": replace}, ov)
    ov.close()
    env = dict(os.environ, GOFLAGS="-mod=mod", GOPROXY="off", GOSUMDB="off", GOTOOLCHAIN="local",
               BOUNDED_TIER=tier, BOUNDED_REPLAY_DIR=replay_dir,
               BOUNDED_VECTORS=os.path.join(here, "vectors", "c14.txt"))
    timeout = "1500s" if tier == "thorough" else "600s"
    cmd = ["go", "test", "-overlay", ov.name, "-v", "-vet=off", "-count=1", "-timeout", timeout,
           "-run", "^TestBounded_%s$" % prop] + targets
    if prop == "C11":
        cmd.insert(2, "-race")
    p = subprocess.run(cmd, cwd=repo, env=env, capture_output=True, text=True, errors="replace")
    os.unlink(ov.name)
    out = p.stdout + p.stderr
    report["ran"] = True
    report["cmd"] = " ".join(cmd[:2] + ["-overlay <generated>"] + cmd[4:])
    known = []
    try:
        kf = json.load(open(os.path.join(os.path.dirname(here), "known-findings.json")))
        known = [k for k in kf.get("findings", []) if k.get("status") == "open" and k.get("bounded_sigs")]
    except Exception:
        pass
    viol, notes = [], []
    for line in out.splitlines():
        m = re.match(r"BOUNDED-VIOLATION property=(\S+) sig=(\S+) replay=(\S+) :: (.*)", line)
        if m:
            vp, sig, rp, what = m.groups()
            k = next((k for k in known if (vp + "/" + sig) in k["bounded_sigs"]), None)
            if k is not None:
                print("KNOWN-FINDING: property=%s %s (bounded signature %s/%s)" % (prop, k.get("what", what), vp, sig))
                report["known_findings"].append(vp + "/" + sig)
                continue
            # a failing history found while checking this property is reported under it, with the
            # label of the clause that failed (a changed snapshot seen in the map-semantics test is
            # also a tree whose lookups no longer return the last value written)
            viol.append((sig if vp == prop else vp + "/" + sig, rp, what))
            continue
        m = re.match(r"BOUNDED-STAT (\S+)=(\d+)", line)
        if m:
            report["stats"][m.group(1)] = int(m.group(2))
    if "WARNING: DATA RACE" in out:
        os.makedirs(os.path.join(replay_dir, prop), exist_ok=True)
        rp = os.path.join(replay_dir, prop, "bounded_data-race.txt")
        i = out.index("WARNING: DATA RACE")
        open(rp, "w").write("race detector report while independent trees ran concurrently (go test -race, TestBounded_C11):\n" + out[i:i + 6000])
        viol.append(("data-race", rp, "the race detector reports a data race between goroutines using independent trees"))
    build_failed = ("[build failed]" in out) or ("[setup failed]" in out)
    panicked = re.search(r"^panic: ", out, re.M) is not None and not viol
    timed_out = "test timed out" in out
    rc = 0
    if build_failed:
        # the harness does not compile against this tree: undecided, not a violation
        print("UNDECIDED bounded harness does not build against the current tree:\n" + out[-2000:])
        report["note"] = "harness build failed"
        report["ran"] = False
    elif panicked or timed_out:
        os.makedirs(os.path.join(replay_dir, prop), exist_ok=True)
        rp = os.path.join(replay_dir, prop, "bounded_crash.txt")
        open(rp, "w").write("bounded harness run for %s %s:\n%s\n" % (prop, "timed out" if timed_out else "panicked outside a guarded call", out[-6000:]))
        print("VIOLATION property=%s replay=%s bounded: the test binary %s" % (prop, rp, "timed out (a call does not terminate)" if timed_out else "panicked"))
        report["violations"].append({"sig": "crash", "replay": rp})
        rc = 1
    for sig, rp, what in viol:
        print("VIOLATION property=%s replay=%s bounded-check=%s %s" % (prop, rp, sig, what))
        report["violations"].append({"sig": sig, "replay": rp, "what": what})
        rc = 1
    if notes:
        report["notes_other_properties"] = notes[:20]
    if rc == 0 and report["ran"] and p.returncode != 0 and not report["known_findings"]:
        # go test failed for a reason the harness did not classify
        os.makedirs(os.path.join(replay_dir, prop), exist_ok=True)
        rp = os.path.join(replay_dir, prop, "bounded_unclassified.txt")
        open(rp, "w").write(out[-8000:])
        if not notes:
            print("VIOLATION property=%s replay=%s bounded: go test failed without a classified violation" % (prop, rp))
            report["violations"].append({"sig": "unclassified", "replay": rp})
            rc = 1
    report["seconds"] = round(time.time() - t0, 1)
    report["passed"] = rc == 0 and report["ran"]
    json.dump(report, open(report_path, "w"), indent=1)
    print("bounded: property=%s tier=%s ran=%s violations=%d known=%d stats=%s wall=%.1fs" % (
        prop, tier, report["ran"], len(report["violations"]), len(report["known_findings"]), json.dumps(report["stats"]), report["seconds"]))
    return rc


sys.exit(main())
