package file

// Bounded stand-in checks for the file backend (C17, C18) and, through the same contract test, the
// in-memory backend (C18). Injected with go test -overlay; nothing is written to /repo.

import (
	"bytes"
	"context"
	"fmt"
	"os"
	"os/signal"
	"path/filepath"
	"strings"
	"sync"
	"syscall"
	"testing"

	"github.com/jrhy/mast"
)

var fctx = context.Background()

func fViolation(t *testing.T, prop, sig, format string, args ...interface{}) {
	t.Helper()
	detail := fmt.Sprintf(format, args...)
	dir := os.Getenv("BOUNDED_REPLAY_DIR")
	path := "none"
	if dir != "" {
		os.MkdirAll(filepath.Join(dir, prop), 0755)
		path = filepath.Join(dir, prop, "bounded_"+sig+".txt")
		os.WriteFile(path, []byte(fmt.Sprintf("bounded check, property %s, signature %s (test %s)\n%s\n", prop, sig, t.Name(), detail)), 0644)
	}
	first := detail
	if i := strings.IndexByte(first, '\n'); i >= 0 {
		first = first[:i]
	}
	fmt.Printf("BOUNDED-VIOLATION property=%s sig=%s replay=%s :: %s\n", prop, sig, path, first)
	t.Fail()
}

func payloads() map[string][]byte {
	big := make([]byte, 3<<20)
	for i := range big {
		big[i] = byte(i*7 + i>>8)
	}
	bin := make([]byte, 256)
	for i := range bin {
		bin[i] = byte(i)
	}
	return map[string][]byte{"empty": {}, "one": {0}, "text": []byte("hello"), "binary": bin, "large": big}
}

// storeContract: the node-store contract of C18 against one backend.
func storeContract(t *testing.T, kind string, p mast.Persist) {
	for name, data := range payloads() {
		if _, err := p.Load(fctx, "never-"+name); err == nil {
			fViolation(t, "C18", kind+"-load-unwritten", "%s backend: Load of the never written name %q returned no error", kind, "never-"+name)
		}
		if err := p.Store(fctx, name, data); err != nil {
			fViolation(t, "C18", kind+"-store-error", "%s backend: Store(%q, %d bytes) failed: %v", kind, name, len(data), err)
			continue
		}
		got, err := p.Load(fctx, name)
		if err != nil || !bytes.Equal(got, data) {
			fViolation(t, "C18", kind+"-roundtrip", "%s backend: after Store(%q, %d bytes) Load returned %d bytes, err=%v", kind, name, len(data), len(got), err)
		}
		// the same name and bytes again, sequentially and concurrently
		if err := p.Store(fctx, name, data); err != nil {
			fViolation(t, "C18", kind+"-restore-error", "%s backend: storing %q again failed: %v", kind, name, err)
		}
		var wg sync.WaitGroup
		errs := make([]error, 8)
		for i := range errs {
			wg.Add(1)
			go func(i int) {
				defer wg.Done()
				errs[i] = p.Store(fctx, name, data)
			}(i)
		}
		wg.Wait()
		for _, e := range errs {
			if e != nil {
				fViolation(t, "C18", kind+"-concurrent-store-error", "%s backend: concurrent Store(%q) of identical bytes failed: %v", kind, name, e)
			}
		}
		got, err = p.Load(fctx, name)
		if err != nil || !bytes.Equal(got, data) {
			fViolation(t, "C18", kind+"-roundtrip-after-rewrite", "%s backend: after storing %q again (sequentially and 8x concurrently) Load returned %d bytes, err=%v, want %d bytes", kind, name, len(got), err, len(data))
		}
	}
}

func TestBounded_C18(t *testing.T) {
	dir := t.TempDir()
	// whatever is already under a name (left by another writer or an older release), a successful
	// Store ends with exactly the bytes given
	for name, data := range payloads() {
		stale := filepath.Join(dir, name)
		os.WriteFile(stale, []byte("stale-content-of-another-writer"), 0644)
		p := NewPersistForPath(dir)
		if err := p.Store(fctx, name, data); err != nil {
			fViolation(t, "C18", "file-store-over-existing", "file backend: Store(%q) over an existing file failed: %v", name, err)
			continue
		}
		if got, err := p.Load(fctx, name); err != nil || !bytes.Equal(got, data) {
			fViolation(t, "C18", "file-store-over-existing", "file backend: a file with other content existed under %q; after a successful Store of %d bytes, Load returns %d bytes (err %v)", name, len(data), len(got), err)
		}
		os.Remove(stale)
	}
	storeContract(t, "file", NewPersistForPath(dir))
	storeContract(t, "memory", mast.NewInMemoryStore())
	// backend errors reach the caller
	bad := NewPersistForPath(filepath.Join(dir, "does", "not", "exist"))
	if err := bad.Store(fctx, "x", []byte("abc")); err == nil {
		fViolation(t, "C18", "file-error-swallowed", "file backend: Store into a missing directory returned no error")
	}
	if _, err := bad.Load(fctx, "x"); err == nil {
		fViolation(t, "C18", "file-error-swallowed", "file backend: Load from a missing directory returned no error")
	}
	if NewPersistForPath(dir).NodeURLPrefix() == NewPersistForPath(filepath.Join(dir, "other")).NodeURLPrefix() {
		fViolation(t, "C18", "file-prefix", "file backend: two directories report the same NodeURLPrefix")
	}
	// no stray files: only the stored names are left in the directory
	ents, _ := os.ReadDir(dir)
	want := payloads()
	for _, e := range ents {
		if _, ok := want[e.Name()]; !ok {
			fViolation(t, "C18", "file-stray", "file backend: unexpected file %q left in the store directory", e.Name())
		}
	}
	fmt.Printf("BOUNDED-STAT C18.payloads=%d\n", len(want))
}

// TestBounded_C17: the file store never exposes or keeps a partial node. A write is cut short at
// every offset of a step grid by an I/O error (EFBIG through RLIMIT_FSIZE), and torn files left by
// an earlier writer at the final name must be repaired by the next Store.
func TestBounded_C17(t *testing.T) {
	dir := t.TempDir()
	p := NewPersistForPath(dir)
	data := make([]byte, 9000)
	for i := range data {
		data[i] = byte(i%251 + 1)
	}
	// (a) a torn file at the final name (left by a crashed writer) is repaired, not kept
	cases := 0
	for _, cut := range []int{0, 1, 100, 4096, 8999} {
		name := fmt.Sprintf("torn-%d", cut)
		os.WriteFile(filepath.Join(dir, name), data[:cut], 0644)
		cases++
		if err := p.Store(fctx, name, data); err != nil {
			fViolation(t, "C17", "torn-not-repaired", "a file torn at %d of %d bytes exists under the name; Store failed: %v", cut, len(data), err)
			continue
		}
		got, err := p.Load(fctx, name)
		if err != nil || !bytes.Equal(got, data) {
			fViolation(t, "C17", "torn-not-repaired", "a file torn at %d of %d bytes exists under the name; after a successful Store, Load returns %d bytes (err %v)", cut, len(data), len(got), err)
		}
	}
	// (b) a write cut short by an I/O error at offset n: error reported, nothing partial visible
	signal.Ignore(syscall.SIGXFSZ)
	defer signal.Reset(syscall.SIGXFSZ)
	var old syscall.Rlimit
	if err := syscall.Getrlimit(syscall.RLIMIT_FSIZE, &old); err != nil {
		fmt.Printf("BOUNDED-STAT C17.fault_injection_unavailable=1\n")
		return
	}
	step := 1500
	if os.Getenv("BOUNDED_TIER") == "thorough" {
		step = 173
	}
	for cut := 0; cut < len(data); cut += step {
		name := fmt.Sprintf("cut-%d", cut)
		lim := syscall.Rlimit{Cur: uint64(cut), Max: old.Max}
		if err := syscall.Setrlimit(syscall.RLIMIT_FSIZE, &lim); err != nil {
			break
		}
		err := p.Store(fctx, name, data)
		syscall.Setrlimit(syscall.RLIMIT_FSIZE, &old)
		cases++
		got, lerr := p.Load(fctx, name)
		if err == nil {
			if lerr != nil || !bytes.Equal(got, data) {
				fViolation(t, "C17", "success-but-incomplete", "write cut at offset %d of %d by an I/O error: Store reported success, Load returns %d bytes (err %v)", cut, len(data), len(got), lerr)
			}
			continue
		}
		if lerr == nil && !bytes.Equal(got, data) {
			fViolation(t, "C17", "partial-visible", "write cut at offset %d of %d by an I/O error (Store returned %v): Load returns %d bytes instead of failing", cut, len(data), err, len(got))
		}
		// a later write of the same node repairs it
		if err := p.Store(fctx, name, data); err != nil {
			fViolation(t, "C17", "not-repaired", "after a write cut at offset %d, the retry failed: %v", cut, err)
			continue
		}
		got, lerr = p.Load(fctx, name)
		if lerr != nil || !bytes.Equal(got, data) {
			fViolation(t, "C17", "not-repaired", "after a write cut at offset %d and a successful retry, Load returns %d bytes (err %v)", cut, len(got), lerr)
		}
	}
	fmt.Printf("BOUNDED-STAT C17.cases=%d\n", cases)
}
