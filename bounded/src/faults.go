package mast

import (
	"errors"
	"fmt"
	"strings"
	"testing"
)

// ---------------------------------------------------------------------------------------------
// C12: an operation that returns an error leaves the tree unchanged

type bCall struct {
	name string
	run  func(m *Mast) error
	// after applies the call's effect to the model (for the retry)
	after func(model map[int]int)
}

func bCallsFor(model map[int]int, other *Mast, univ int) []bCall {
	var calls []bCall
	for k := 0; k < univ; k++ {
		k := k
		calls = append(calls, bCall{fmt.Sprintf("Insert(%d,7)", k), func(m *Mast) error { return m.Insert(bctx, k, 7) }, func(md map[int]int) { md[k] = 7 }})
		if v, ok := model[k]; ok {
			calls = append(calls, bCall{fmt.Sprintf("Delete(%d,%d)", k, v), func(m *Mast) error { return m.Delete(bctx, k, v) }, func(md map[int]int) { delete(md, k) }})
		}
	}
	calls = append(calls,
		bCall{"Get(1)", func(m *Mast) error { var x int; _, err := m.Get(bctx, 1, &x); return err }, nil},
		bCall{"Iter", func(m *Mast) error { return m.Iter(bctx, func(k, v interface{}) error { return nil }) }, nil},
		bCall{"SeekIter(2)", func(m *Mast) error { return m.SeekIter(bctx, 2, func(k, v interface{}) error { return nil }) }, nil},
		bCall{"Clone", func(m *Mast) error { _, err := m.Clone(bctx); return err }, nil},
		bCall{"DiffIter(other)", func(m *Mast) error {
			return m.DiffIter(bctx, other, func(a, r bool, k, av, rv interface{}) (bool, error) { return true, nil })
		}, nil},
		bCall{"Cursor.Min/Forward", func(m *Mast) error {
			c, err := m.Cursor(bctx)
			if err != nil {
				return err
			}
			if err := c.Min(bctx); err != nil {
				return err
			}
			for i := 0; i < 100; i++ {
				if _, _, ok := c.Get(); !ok {
					break
				}
				if err := c.Forward(bctx); err != nil {
					return err
				}
			}
			return nil
		}, nil},
		bCall{"Cursor.Ceil(3)/Backward", func(m *Mast) error {
			c, err := m.Cursor(bctx)
			if err != nil {
				return err
			}
			if err := c.Ceil(bctx, 3); err != nil {
				return err
			}
			for i := 0; i < 100; i++ {
				if _, _, ok := c.Get(); !ok {
					break
				}
				if err := c.Backward(bctx); err != nil {
					return err
				}
			}
			return nil
		}, nil},
	)
	return calls
}

// errWord gives the first word of the error chain (the failing step inside the call), used to tell
// failure sites apart.
func errWord(err error) string {
	s := err.Error()
	if i := strings.IndexAny(s, ": "); i > 0 {
		s = s[:i]
	}
	return s
}

func callWord(name string) string {
	if i := strings.IndexAny(name, "(./"); i > 0 {
		return name[:i]
	}
	return name
}

func TestBounded_C12(t *testing.T) {
	cases := 0
	seeds := 12
	if bTier() == "thorough" {
		seeds = bScale(80)
	}
	univ := 24
	for seed := 1; seed <= seeds; seed++ {
		r := &bRand{uint64(seed)*0x2545F4914F6CDD1D + 1}
		bf := uint(2 + r.intn(3))
		nf := bFormats[r.intn(2)]
		st := newBStore("mem://faults")
		model := map[int]int{}
		for i, n := 0, 4+r.intn(20); i < n; i++ {
			model[r.intn(univ)] = r.intn(3)
		}
		base, err := bBuild(bf, nf, st, model, 0, false)
		if err != nil {
			continue
		}
		root, err := base.MakeRoot(bctx)
		if err != nil {
			continue
		}
		om := bCopyModel(model)
		om[1] = 5
		delete(om, bModelKeys(model)[0])
		other, err := bBuild(bf, nf, st, om, 1, true)
		if err != nil {
			continue
		}
		for variant := 0; variant < 2; variant++ {
			// variant 1: part of the tree is made private first (two updates), as a live tree
			// between two persists would have it
			model := model
			var touched []int
			if variant == 1 {
				model = bCopyModel(model)
				ks := bModelKeys(model)
				touched = []int{ks[r.intn(len(ks))], ks[r.intn(len(ks))]}
				for _, kk := range touched {
					model[kk] += 10
				}
			}
			for _, c := range bCallsFor(model, other, univ) {
				for _, fault := range []string{"load", "compare", "layer"} {
					for n := 1; n <= 40; n++ {
						// a freshly loaded tree (no cache): every node access goes to the store
						m, err := root.LoadMast(bctx, bCfg(st, nil))
						if err != nil {
							break
						}
						for _, kk := range touched {
							m.Insert(bctx, kk, model[kk])
						}
						sizeBefore, heightBefore := m.Size(), m.Height()
						count := 0
						fail := true
						switch fault {
						case "load":
							st.reset()
							st.failLoad = n
						case "compare":
							inner := m.keyOrder
							m.keyOrder = func(a, b interface{}) (int, error) {
								count++
								if fail && count == n {
									return 0, errInjected
								}
								return inner(a, b)
							}
						case "layer":
							inner := m.keyLayer
							m.keyLayer = func(k interface{}, bf uint) (uint8, error) {
								count++
								if fail && count == n {
									return 0, errInjected
								}
								return inner(k, bf)
							}
						}
						var callErr error
						panicked := bSafely(func() string { callErr = c.run(m); return "" })
						reached := count >= n
						if fault == "load" {
							l, _ := st.counts()
							reached = l >= n
						}
						st.reset()
						fail = false
						cases++
						desc := fmt.Sprintf("seed=%d bf=%d nf=%s contents %s\ncall %s with the %d-th %s failing", seed, bf, nf, bModelString(model), c.name, n, map[string]string{"load": "store Load", "compare": "key comparison", "layer": "layer callback"}[fault])
						if panicked != "" {
							bViolation(t, "C12", "panic-"+callWord(c.name)+"-"+fault, "%s\n%s", desc, panicked)
							break
						}
						if callErr == nil {
							if !reached {
								break // the call needs fewer than n such steps
							}
							// the failing step was tolerated by the call (a lookahead whose failure
							// is not an error): its result must then be the normal one
							m2 := bCopyModel(model)
							if c.after != nil {
								c.after(m2)
							}
							if msg := bCompare(m, m2, univ); msg != "" {
								bViolation(t, "C12", "swallowed-"+callWord(c.name)+"-"+fault, "%s\nreturned no error, and afterwards: %s", desc, msg)
							}
							continue
						}
						if !errors.Is(callErr, errInjected) && !strings.Contains(callErr.Error(), errInjected.Error()) {
							// some other error: not the injected one
							bViolation(t, "C12", "other-error-"+callWord(c.name), "%s\nreturned an error that is not the injected fault: %v", desc, callErr)
							break
						}
						sig := "not-atomic-" + callWord(c.name) + "-" + errWord(callErr)
						if m.Size() != sizeBefore || m.Height() != heightBefore {
							bViolation(t, "C12", sig, "%s\nreturned %q but size/height changed from %d/%d to %d/%d", desc, callErr, sizeBefore, heightBefore, m.Size(), m.Height())
							continue
						}
						if msg := bCompare(m, model, univ); msg != "" {
							bViolation(t, "C12", sig, "%s\nreturned %q and the tree is no longer what it was: %s", desc, callErr, msg)
							continue
						}
						// the same call succeeds with the normal result once the fault has cleared
						var retryErr error
						if p := bSafely(func() string { retryErr = c.run(m); return "" }); p != "" || retryErr != nil {
							bViolation(t, "C12", "retry-fails-"+callWord(c.name), "%s\nreturned %q; the retry after the fault cleared gives %v %s", desc, callErr, retryErr, p)
							continue
						}
						m2 := bCopyModel(model)
						if c.after != nil {
							c.after(m2)
						}
						if msg := bCompare(m, m2, univ); msg != "" {
							bViolation(t, "C12", "retry-wrong-"+callWord(c.name), "%s\nreturned %q; after the successful retry: %s", desc, callErr, msg)
						}
					}
				}
			}
		}
	}
	bStat("C12.fault_cases", cases)
	bCursorFaultsFor(t, "C12")
	bUnmarshalFaults(t)
}

// bUnmarshalFaults: the decoding callback failing part-way through a node, on a tree that shares a
// node cache: the failed call changes nothing, and once the fault has cleared this tree and any
// tree opened through the same cache still hold exactly the contents.
func bUnmarshalFaults(t *testing.T) {
	cases := 0
	for seed := 1; seed <= 6; seed++ {
		r := &bRand{uint64(seed)*0xBF58476D1CE4E5B9 + 77}
		bf := uint(2 + r.intn(3))
		nf := bFormats[seed%2]
		st := newBStore("mem://unmarshal-faults")
		model := map[int]int{}
		for i, n := 0, 12+r.intn(20); i < n; i++ {
			model[r.intn(40)] = r.intn(3)
		}
		base, err := bBuild(bf, nf, st, model, 0, false)
		if err != nil {
			continue
		}
		root, err := base.MakeRoot(bctx)
		if err != nil {
			continue
		}
		for _, what := range []string{"iter", "get", "insert"} {
			for n := 1; n <= 60; n += 1 + n/8 {
				cache := NewNodeCache(1000)
				count, fail := 0, true
				cfg := bCfg(st, cache)
				cfg.Unmarshal = func(b []byte, v interface{}) error {
					count++
					if fail && count == n {
						return errInjected
					}
					return defaultUnmarshal(b, v)
				}
				m, err := root.LoadMast(bctx, cfg)
				if err != nil {
					continue
				}
				ks := bModelKeys(model)
				k := ks[(n*7)%len(ks)]
				var callErr error
				p := bSafely(func() string {
					switch what {
					case "iter":
						callErr = m.Iter(bctx, func(_, _ interface{}) error { return nil })
					case "get":
						var v int
						_, callErr = m.Get(bctx, k, &v)
					case "insert":
						callErr = m.Insert(bctx, k, model[k])
					}
					return ""
				})
				fail = false
				desc := fmt.Sprintf("seed=%d bf=%d nf=%s contents %s\n%s (key %d) with the %d-th Unmarshal callback failing, shared node cache", seed, bf, nf, bModelString(model), what, k, n)
				if p != "" {
					bViolation(t, "C12", "panic-unmarshal-fault", "%s\n%s", desc, p)
					continue
				}
				if callErr == nil {
					continue
				}
				cases++
				if msg := bSafely(func() string { return bCompare(m, model, 41) }); msg != "" {
					bViolation(t, "C12", "after-unmarshal-fault", "%s\nreturned %q; after the fault cleared the tree is no longer what it was: %s", desc, callErr, msg)
					continue
				}
				m2, err := root.LoadMast(bctx, bCfg(st, cache))
				if err != nil {
					continue
				}
				if msg := bSafely(func() string { return bCompare(m2, model, 41) }); msg != "" {
					bViolation(t, "C12", "cache-after-unmarshal-fault", "%s\nreturned %q; a tree opened afterwards through the same cache: %s", desc, callErr, msg)
				}
			}
		}
	}
	bStat("C12.unmarshal_fault_cases", cases)
}

// bCursorFaults: a navigation step that fails on a store fault leaves the cursor where it was:
// the same step, retried after the fault has cleared, continues the walk as if nothing happened.
func bCursorFaultsFor(t *testing.T, prop string) {
	steps := 0
	seeds := 6
	if bTier() == "thorough" {
		seeds = bScale(40)
	}
	for seed := 1; seed <= seeds; seed++ {
		r := &bRand{uint64(seed)*0x9E6C63D0876A9A47 + 3}
		bf := uint(2 + r.intn(3))
		st := newBStore("mem://cursor-faults")
		model := map[int]int{}
		for i, n := 0, 5+r.intn(20); i < n; i++ {
			model[r.intn(40)] = r.intn(3)
		}
		base, err := bBuild(bf, bFormats[r.intn(2)], st, model, 0, false)
		if err != nil {
			continue
		}
		root, err := base.MakeRoot(bctx)
		if err != nil {
			continue
		}
		ks := bModelKeys(model)
		for _, forward := range []bool{true, false} {
			want := append([]int(nil), ks...)
			if !forward {
				for i, j := 0, len(want)-1; i < j; i, j = i+1, j-1 {
					want[i], want[j] = want[j], want[i]
				}
			}
			for at := 0; at < len(ks)*3; at++ {
				nth := 1 + at/len(ks) // which store Load of the step fails: 1st, 2nd or 3rd
				at := at % len(ks)
				m, err := root.LoadMast(bctx, bCfg(st, nil))
				if err != nil {
					break
				}
				var got []int
				var failedWith error
				msg := bSafely(func() string {
					c, err := m.Cursor(bctx)
					if err != nil {
						return "Cursor: " + err.Error()
					}
					if forward {
						err = c.Min(bctx)
					} else {
						err = c.Max(bctx)
					}
					if err != nil {
						return "place: " + err.Error()
					}
					for i := 0; i <= len(ks)+1; i++ {
						k, _, ok := c.Get()
						if !ok {
							return ""
						}
						got = append(got, k.(int))
						if i == at {
							st.reset()
							st.failLoad = nth
						}
						if forward {
							err = c.Forward(bctx)
						} else {
							err = c.Backward(bctx)
						}
						st.reset()
						if err != nil {
							if failedWith != nil {
								return "second failure: " + err.Error()
							}
							failedWith = err
							// retry the same step, the fault has cleared
							if forward {
								err = c.Forward(bctx)
							} else {
								err = c.Backward(bctx)
							}
							if err != nil {
								return "retry failed: " + err.Error()
							}
						}
					}
					return "walk does not end"
				})
				steps++
				dir := map[bool]string{true: "Forward", false: "Backward"}[forward]
				if msg != "" {
					bViolation(t, prop, "cursor-retry-"+dir, "seed=%d bf=%d contents %s\n%s walk, store Load failing during step %d: %s (visited %v)", seed, bf, bModelString(model), dir, at, msg, got)
					continue
				}
				if failedWith != nil && fmt.Sprint(got) != fmt.Sprint(want) {
					bViolation(t, prop, "cursor-moved-on-error-"+dir, "seed=%d bf=%d contents %s\n%s step %d failed with %q (the %d-th store Load of that step was made to fail); after retrying it the walk visited %v, expected %v", seed, bf, bModelString(model), dir, at, failedWith, nth, got, want)
				}
			}
		}
	}
	bStat(prop+".cursor_fault_walks", steps)
	// Ceil / Min / Max that fail on a store fault and are retried on the same cursor
	placements := 0
	for seed := 1; seed <= seeds; seed++ {
		r := &bRand{uint64(seed)*0xD6E8FEB86659FD93 + 5}
		bf := uint(2 + r.intn(3))
		st := newBStore("mem://cursor-place-faults")
		model := map[int]int{}
		for i, n := 0, 5+r.intn(20); i < n; i++ {
			model[r.intn(40)] = r.intn(3)
		}
		base, err := bBuild(bf, bFormats[r.intn(2)], st, model, 0, false)
		if err != nil {
			continue
		}
		root, err := base.MakeRoot(bctx)
		if err != nil {
			continue
		}
		ks := bModelKeys(model)
		for probe := -1; probe <= 40; probe += 3 {
			var want []int
			for _, k := range ks {
				if k >= probe {
					want = append(want, k)
				}
			}
			for nth := 1; nth <= 4; nth++ {
				m, err := root.LoadMast(bctx, bCfg(st, nil))
				if err != nil {
					break
				}
				var got []int
				var failedWith error
				msg := bSafely(func() string {
					c, err := m.Cursor(bctx)
					if err != nil {
						return "Cursor: " + err.Error()
					}
					st.reset()
					st.failLoad = nth
					err = c.Ceil(bctx, probe)
					st.reset()
					if err != nil {
						failedWith = err
						if err = c.Ceil(bctx, probe); err != nil {
							return "retry failed: " + err.Error()
						}
					}
					for i := 0; i <= len(ks)+1; i++ {
						k, _, ok := c.Get()
						if !ok {
							return ""
						}
						got = append(got, k.(int))
						if err := c.Forward(bctx); err != nil {
							return "Forward: " + err.Error()
						}
					}
					return "walk does not end"
				})
				if failedWith == nil {
					break
				}
				placements++
				if msg != "" || fmt.Sprint(got) != fmt.Sprint(want) {
					bViolation(t, prop, "ceil-retry", "seed=%d bf=%d contents %s\nCeil(%d) failed with %q (its %d-th store Load failing); retried on the same cursor and walked forward: visited %v %s, expected %v", seed, bf, bModelString(model), probe, failedWith, nth, got, msg, want)
				}
			}
		}
	}
	bStat(prop+".cursor_fault_placements", placements)
}

// ---------------------------------------------------------------------------------------------
// C03: a returned root is complete and durable

func bCheckComplete(root *Root, st *bStore) string {
	reach, err := bReachRoot(root, st)
	if err != nil {
		return fmt.Sprintf("walking the version from %s: %v", bRootString(root), err)
	}
	for n := range reach {
		b, ok := st.data[n]
		if !ok {
			return fmt.Sprintf("node %s is not in the store", n)
		}
		if nameOfBytes(b) != n {
			return fmt.Sprintf("node %s is stored with bytes that hash to %s", n, nameOfBytes(b))
		}
	}
	return ""
}

func TestBounded_C03(t *testing.T) {
	cases := 0
	seeds := 30
	if bTier() == "thorough" {
		seeds = bScale(300)
	}
	univ := 48
	for seed := 1; seed <= seeds; seed++ {
		r := &bRand{uint64(seed)*0x9FB21C651E98DF25 + 11}
		bf := uint(2 + r.intn(4))
		nf := bFormats[r.intn(2)]
		st := newBStore("mem://durable")
		var cache NodeCache
		if r.intn(2) == 0 {
			cache = NewNodeCache(256)
		}
		model := map[int]int{}
		for i, n := 0, 1+r.intn(40); i < n; i++ {
			model[r.intn(univ)] = r.intn(3)
		}
		cfg := fmt.Sprintf("seed=%d bf=%d nf=%s cache=%v contents %s", seed, bf, nf, cache != nil, bModelString(model))
		// (a) healthy store: the root is complete when MakeRoot returns
		m, err := bNewTree(bf, nf, st, cache)
		if err != nil {
			continue
		}
		for _, k := range bModelKeys(model) {
			m.Insert(bctx, k, model[k])
		}
		root, err := m.MakeRoot(bctx)
		cases++
		if err != nil {
			bViolation(t, "C03", "makeroot-error", "%s\nMakeRoot failed on a healthy store: %v", cfg, err)
			continue
		}
		if msg := bCheckComplete(root, st); msg != "" {
			bViolation(t, "C03", "incomplete-root", "%s\nMakeRoot returned %s but %s", cfg, bRootString(root), msg)
		}
		// (b) the n-th write fails: error reported, tree still usable, a later success is complete
		for n := 1; n <= 6; n++ {
			st2 := newBStore("mem://durable2")
			var cache2 NodeCache
			if cache != nil {
				cache2 = NewNodeCache(256)
			}
			m2, _ := bNewTree(bf, nf, st2, cache2)
			for _, k := range bModelKeys(model) {
				m2.Insert(bctx, k, model[k])
			}
			st2.failStore = n
			r1, err1 := m2.MakeRoot(bctx)
			st2.mu.Lock()
			hit := st2.failStore == 0 && n <= st2.stores
			st2.failStore = 0
			st2.mu.Unlock()
			cases++
			if !hit {
				break
			}
			if err1 == nil {
				bViolation(t, "C03", "write-error-swallowed", "%s\nthe %d-th node write failed, MakeRoot returned success with %s", cfg, n, bRootString(r1))
				if msg := bCheckComplete(r1, st2); msg != "" {
					bViolation(t, "C03", "incomplete-root-after-fault", "%s\nthe %d-th node write failed, MakeRoot returned %s but %s", cfg, n, bRootString(r1), msg)
				}
				continue
			}
			// a second tree with the same contents, same store and same cache, persisted without
			// faults: nothing the failed attempt left in the cache may make it skip a node
			if cache2 != nil {
				m3, _ := bNewTree(bf, nf, st2, cache2)
				for _, k := range bModelKeys(model) {
					m3.Insert(bctx, k, model[k])
				}
				if r3, err3 := m3.MakeRoot(bctx); err3 != nil {
					bViolation(t, "C03", "second-tree-fails", "%s\nafter another tree's MakeRoot failed at the %d-th write, a fresh tree with the same contents (same store, same cache) cannot be persisted: %v", cfg, n, err3)
				} else if msg := bCheckComplete(r3, st2); msg != "" {
					bViolation(t, "C03", "skipped-after-failed-write", "%s\nafter another tree's MakeRoot failed at the %d-th write, a fresh tree with the same contents (same store, same cache) was persisted as %s but %s", cfg, n, bRootString(r3), msg)
				}
			}
			if msg := bCompare(m2, model, univ); msg != "" {
				bViolation(t, "C03", "unusable-after-fault", "%s\nafter MakeRoot failed at the %d-th write the tree is not usable / changed: %s", cfg, n, msg)
				continue
			}
			r2, err2 := m2.MakeRoot(bctx)
			if err2 != nil {
				bViolation(t, "C03", "retry-fails", "%s\nafter MakeRoot failed at the %d-th write, the retry on the healthy store fails: %v", cfg, n, err2)
				continue
			}
			if msg := bCheckComplete(r2, st2); msg != "" {
				bViolation(t, "C03", "incomplete-root-after-retry", "%s\nMakeRoot failed at the %d-th write; the retry returned %s but %s", cfg, n, bRootString(r2), msg)
			}
		}
		// (c) a cache shared between two stores must not make the second store skip nodes
		if cache != nil {
			stB := newBStore("mem://other-store")
			mB, _ := bNewTree(bf, nf, stB, cache)
			for _, k := range bModelKeys(model) {
				mB.Insert(bctx, k, model[k])
			}
			rB, err := mB.MakeRoot(bctx)
			cases++
			if err != nil {
				bViolation(t, "C03", "makeroot-error", "%s\nMakeRoot into a second store failed: %v", cfg, err)
			} else if msg := bCheckComplete(rB, stB); msg != "" {
				bViolation(t, "C03", "skipped-for-cache", "%s\nsame contents persisted into a second store sharing the node cache: root %s but %s", cfg, bRootString(rB), msg)
			}
		}
	}
	bStat("C03.cases", cases)
}
