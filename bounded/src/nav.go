package mast

import (
	"fmt"
	"testing"
)

// bCursorWalk positions a cursor with place and then steps with step until Get reports no entry
// (at most limit steps); it returns the keys seen.
func bCursorWalk(m *Mast, place func(c *Cursor) error, forward bool, limit int) (keys []int, err error) {
	defer func() {
		if r := recover(); r != nil {
			err = fmt.Errorf("panic: %v", r)
		}
	}()
	c, err := m.Cursor(bctx)
	if err != nil {
		return nil, fmt.Errorf("Cursor: %w", err)
	}
	if err := place(c); err != nil {
		return nil, fmt.Errorf("place: %w", err)
	}
	for i := 0; i <= limit; i++ {
		k, _, ok := c.Get()
		if !ok {
			return keys, nil
		}
		keys = append(keys, k.(int))
		if forward {
			err = c.Forward(bctx)
		} else {
			err = c.Backward(bctx)
		}
		if err != nil {
			return keys, fmt.Errorf("step: %w", err)
		}
	}
	return keys, fmt.Errorf("cursor did not step off the end after %d steps", limit)
}

func bCheckNav(t *testing.T, desc string, m *Mast, model map[int]int, lo, hi int) {
	ks := bModelKeys(model)
	rev := make([]int, len(ks))
	for i, k := range ks {
		rev[len(ks)-1-i] = k
	}
	ctx := fmt.Sprintf("%s contents %s", desc, bModelString(model))
	got, err := bCursorWalk(m, func(c *Cursor) error { return c.Min(bctx) }, true, len(ks)+2)
	if err != nil || fmt.Sprint(got) != fmt.Sprint(ks) {
		bViolation(t, "C10", "min-forward", "%s\nMin then Forward visited %v (err %v), sorted keys are %v", ctx, got, err, ks)
	}
	got, err = bCursorWalk(m, func(c *Cursor) error { return c.Max(bctx) }, false, len(ks)+2)
	if err != nil || fmt.Sprint(got) != fmt.Sprint(rev) {
		bViolation(t, "C10", "max-backward", "%s\nMax then Backward visited %v (err %v), descending keys are %v", ctx, got, err, rev)
	}
	for p := lo; p <= hi; p++ {
		var ge, lt []int
		for _, k := range ks {
			if k >= p {
				ge = append(ge, k)
			}
		}
		// Ceil then forward: keys >= p ascending
		got, err = bCursorWalk(m, func(c *Cursor) error { return c.Ceil(bctx, p) }, true, len(ks)+2)
		if err != nil || fmt.Sprint(got) != fmt.Sprint(ge) {
			bViolation(t, "C10", "ceil-forward", "%s\nCeil(%d) then Forward visited %v (err %v), expected %v", ctx, p, got, err, ge)
		}
		// Ceil then backward: the ceiling entry (if any), then the keys below it descending
		if len(ge) > 0 {
			for i := len(ks) - 1; i >= 0; i-- {
				if ks[i] <= ge[0] {
					lt = append(lt, ks[i])
				}
			}
			got, err = bCursorWalk(m, func(c *Cursor) error { return c.Ceil(bctx, p) }, false, len(ks)+2)
			if err != nil || fmt.Sprint(got) != fmt.Sprint(lt) {
				bViolation(t, "C10", "ceil-backward", "%s\nCeil(%d) then Backward visited %v (err %v), expected %v", ctx, p, got, err, lt)
			}
		}
		// SeekIter from p: entries with key >= p, ascending, each once
		var seen []int
		err = func() (err error) {
			defer func() {
				if r := recover(); r != nil {
					err = fmt.Errorf("panic: %v", r)
				}
			}()
			return m.SeekIter(bctx, p, func(k, v interface{}) error {
				seen = append(seen, k.(int))
				if v.(int) != model[k.(int)] {
					return fmt.Errorf("value %v for key %v, model has %d", v, k, model[k.(int)])
				}
				return nil
			})
		}()
		if err != nil || fmt.Sprint(seen) != fmt.Sprint(ge) {
			bViolation(t, "C10", "seekiter", "%s\nSeekIter(%d) yielded %v (err %v), expected %v", ctx, p, seen, err, ge)
		}
		// the callback signalling done stops the iteration without error
		if len(ge) >= 2 {
			n := 0
			err = m.SeekIter(bctx, p, func(k, v interface{}) error {
				n++
				return ErrIterDone
			})
			if err != nil || n != 1 {
				bViolation(t, "C10", "seekiter-done", "%s\nSeekIter(%d) with a callback returning ErrIterDone: %d calls, err=%v", ctx, p, n, err)
			}
		}
	}
}

func TestBounded_C10(t *testing.T) {
	total := 0
	for _, bf := range []uint{2, 3} {
		for mode := 0; mode <= 1; mode++ {
			total += bExplore(t, bf, bFormats[mode], mode, bDepth(), func(m *Mast, model map[int]int, hist []bOp, st *bStore) {
				bCheckNav(t, fmt.Sprintf("bf=%d mode=%d history: %s\n", bf, mode, bHist(hist)), m, model, -1, bUniv)
			})
		}
	}
	bStat("C10.exhaustive_states", total)
	seeds := 40
	if bTier() == "thorough" {
		seeds = bScale(400)
	}
	for seed := 1; seed <= seeds; seed++ {
		r := &bRand{uint64(seed)*0xA24BAED4963EE407 + 3}
		bf := uint(2 + r.intn(4))
		if seed%9 == 0 {
			bf = 16
		}
		st := newBStore("mem://nav")
		model := map[int]int{}
		for i, n := 0, r.intn(40); i < n; i++ {
			model[r.intn(48)] = r.intn(3)
		}
		m, err := bBuild(bf, bFormats[r.intn(2)], st, model, r.intn(2), r.intn(2) == 0)
		if err != nil {
			continue
		}
		// a few deletes so that pass-through nodes and emptied subtrees occur
		for i, n := 0, r.intn(6); i < n; i++ {
			if ks := bModelKeys(model); len(ks) > 0 {
				k := ks[r.intn(len(ks))]
				bApply(m, model, bOp{true, k, model[k]})
			}
		}
		bCheckNav(t, fmt.Sprintf("seed=%d bf=%d\n", seed, bf), m, model, -1, 49)
	}
	bStat("C10.random_trees", seeds)
	// stepping under transient store faults: a failed step is retried and the walk still visits
	// exactly the sorted keys (shared with the C12 check)
	bCursorFaultsFor(t, "C10")
}
