package mast

import (
	"bytes"
	"crypto/sha256"
	"encoding/hex"
	"encoding/json"
	"fmt"
	"os"
	"sort"
	"strings"
	"testing"
)

// ---------------------------------------------------------------------------------------------
// C08: content addressing and deterministic encoding

func bCheckAddresses(t *testing.T, desc string, st *bStore) {
	st.mu.Lock()
	defer st.mu.Unlock()
	for name, b := range st.data {
		if want := nameOfBytes(b); want != name {
			bViolation(t, "C08", "name-not-hash", "%s\nnode written under %s, its %d bytes hash to %s", desc, name, len(b), want)
		}
	}
	if len(st.rewrites) > 0 {
		bViolation(t, "C08", "same-name-other-bytes", "%s\nname %s was written with different bytes", desc, st.rewrites[0])
	}
}

func TestBounded_C08(t *testing.T) {
	total := 0
	for _, bf := range []uint{2, 3} {
		for _, nf := range bFormats {
			rootOf := map[string]string{}     // contents -> root link
			contentsOf := map[string]string{} // root link -> contents
			var store *bStore
			total += bExplore(t, bf, nf, 2, bDepth(), func(m *Mast, model map[int]int, hist []bOp, st *bStore) {
				store = st
				c, err := m.Clone(bctx)
				if err != nil {
					return
				}
				root, err := c.MakeRoot(bctx)
				if err != nil {
					return
				}
				link := "<nil>"
				if root.Link != nil {
					link = *root.Link
				}
				key := bModelString(model)
				if prev, ok := contentsOf[link]; ok && prev != key {
					bViolation(t, "C08", "same-root-other-contents", "bf=%d nf=%s: root link %s names contents %s and also %s (history %s)", bf, nf, link, prev, key, bHist(hist))
				}
				contentsOf[link] = key
				if prev, ok := rootOf[key]; ok && prev != link {
					bViolation(t, "C08", "not-deterministic", "bf=%d nf=%s: contents %s persisted as %s and as %s (history %s)", bf, nf, key, prev, link, bHist(hist))
				}
				rootOf[key] = link
			})
			if store != nil {
				bCheckAddresses(t, fmt.Sprintf("bf=%d nf=%s exhaustive exploration", bf, nf), store)
			}
		}
	}
	bStat("C08.exhaustive_states", total)
	// a loaded version that is persisted again without a change keeps its name: the root name
	// always is the name of the root node's bytes, for both formats and at every height
	for _, nf := range bFormats {
		for _, bf := range []uint{2, 4, 16} {
			st := newBStore("mem://rename")
			model := map[int]int{}
			for k := 0; k < 300; k++ {
				model[k*3] = k % 5
			}
			m, err := bBuild(bf, nf, st, model, 0, false)
			if err != nil {
				continue
			}
			r1, err := m.MakeRoot(bctx)
			if err != nil || r1.Link == nil {
				continue
			}
			for _, cache := range []NodeCache{nil, NewNodeCache(64)} {
				m2, err := r1.LoadMast(bctx, bCfg(st, cache))
				if err != nil {
					bViolation(t, "C05", "reload-error", "nf=%s bf=%d: %v", nf, bf, err)
					continue
				}
				m2.Iter(bctx, func(k, v interface{}) error { return nil }) // touch every node
				r2, err := m2.MakeRoot(bctx)
				if err != nil {
					continue
				}
				if bRootString(r2) != bRootString(r1) {
					bViolation(t, "C08", "unmodified-other-name", "nf=%s bf=%d cache=%v: version %s, loaded and persisted again unchanged, is returned as %s", nf, bf, cache != nil, bRootString(r1), bRootString(r2))
					continue
				}
				if b, ok := st.data[*r2.Link]; !ok || nameOfBytes(b) != *r2.Link {
					bViolation(t, "C08", "name-not-hash", "nf=%s bf=%d: root name %s is not the name of stored bytes", nf, bf, *r2.Link)
				}
			}
		}
	}
	// the encoding is a function of entries and child names alone: encode the same node twice,
	// and from differently built in-memory nodes
	for _, nf := range bFormats {
		st := newBStore("mem://enc")
		m, _ := bNewTree(4, nf, st, nil)
		for i := 0; i < 30; i++ {
			m.Insert(bctx, i*3, i)
		}
		r1, err1 := m.MakeRoot(bctx)
		st2 := newBStore("mem://enc2")
		m2, _ := bNewTree(4, nf, st2, NewNodeCache(10))
		for i := 29; i >= 0; i-- {
			m2.Insert(bctx, i*3, i+100)
			m2.Insert(bctx, i*3, i)
		}
		r2, err2 := m2.MakeRoot(bctx)
		if err1 != nil || err2 != nil {
			continue
		}
		if bRootString(r1) != bRootString(r2) {
			bViolation(t, "C08", "not-deterministic", "nf=%s: the same 30 entries persisted as %s and %s", nf, bRootString(r1), bRootString(r2))
		}
		reach, _ := bReachRoot(r1, st)
		for n := range reach {
			if string(st.data[n]) != string(st2.data[n]) {
				bViolation(t, "C08", "not-deterministic", "nf=%s: node %s has different bytes in two stores", nf, n)
			}
		}
		bCheckAddresses(t, "nf="+string(nf), st)
		bCheckAddresses(t, "nf="+string(nf), st2)
	}
}

// ---------------------------------------------------------------------------------------------
// C14: frozen reference vectors

// bVectors computes the reference-vector lines of the current code.
func bVectors() []string {
	var out []string
	add := func(f string, a ...interface{}) { out = append(out, fmt.Sprintf(f, a...)) }
	layer := DefaultLayer(defaultMarshal)
	cmp := DefaultKeyCompare(defaultMarshal)
	bfs := []uint{2, 3, 4, 7, 16, 32, 256}
	ints := []int64{0, 1, 2, 3, 4, 6, 8, 9, 12, 16, 27, 32, 48, 64, 81, 128, 256, 1024, 4096, 65536, -1, -2, -4, -16, -256, 1 << 40, -(1 << 40), 9223372036854775807, -9223372036854775808}
	for _, bf := range bfs {
		for _, v := range ints {
			l1, _ := layer(int(v), bf)
			l2, _ := layer(int64(v), bf)
			l3, _ := layer(int32(v), bf)
			l4, _ := layer(uint64(v), bf)
			l5, _ := layer(uint(v), bf)
			l6, _ := layer(int8(v), bf)
			l7, _ := layer(uint16(v), bf)
			add("layer bf=%d v=%d int=%d int64=%d int32=%d uint64=%d uint=%d int8=%d uint16=%d", bf, v, l1, l2, l3, l4, l5, l6, l7)
		}
		for _, s := range []string{"", "a", "b", "hello", "key-000", "key-001", "key-999", "\x00", "\xff\xfe", "The quick brown fox", "mast", "0", "1", "10"} {
			l1, _ := layer(s, bf)
			l2, _ := layer([]byte(s), bf)
			type custom struct{ A string }
			l3, _ := layer(custom{s}, bf)
			add("layer bf=%d s=%q string=%d bytes=%d struct=%d", bf, s, l1, l2, l3)
		}
	}
	pairs := [][2]interface{}{
		{1, 2}, {2, 1}, {2, 2}, {-5, 3}, {"a", "b"}, {"b", "a"}, {"a", "a"}, {"", "a"}, {"a", "B"}, {"abc", "abd"}, {"ab", "abc"},
		{uint(1), uint(2)}, {uint(9), uint(2)}, {uint64(1), uint64(1 << 63)}, {int64(-1), int64(1)}, {int64(7), int64(7)},
		{[]byte{1}, []byte{1, 0}}, {[]byte{2}, []byte{1, 9}}, {[]byte{}, []byte{}},
		{struct{ A int }{1}, struct{ A int }{2}}, {struct{ A int }{10}, struct{ A int }{9}},
		{int32(9), int32(10)}, {int32(10), int32(9)}, {int32(-1), int32(-2)}, {int32(-2), int32(1)}, {int32(5), int32(5)},
		{int8(9), int8(10)}, {int8(-1), int8(-2)}, {int16(9), int16(10)}, {int16(-100), int16(99)},
		{uint8(9), uint8(10)}, {uint8(200), uint8(3)}, {uint16(9), uint16(10)}, {uint16(1000), uint16(999)},
		{uint32(9), uint32(10)}, {uint32(10), uint32(9)}, {float64(1.5), float64(10)}, {float64(2), float64(10)}, {float32(-1), float32(-2)},
		{true, false}, {false, true},
	}
	for _, p := range pairs {
		c, err := cmp(p[0], p[1])
		add("cmp %T %v %v = %d err=%v", p[0], p[0], p[1], c, err != nil)
	}
	_, err := cmp(1, "a")
	add("cmp mixed err=%v", err != nil)
	// node bytes and names
	for _, nf := range bFormats {
		for _, bf := range []uint{2, 16} {
			st := newBStore("mem://vec")
			m, err := NewRoot(&CreateRemoteOptions{BranchFactor: bf, NodeFormat: nf}).LoadMast(bctx, &RemoteConfig{KeysLike: "", ValuesLike: 0, StoreImmutablePartsWith: st})
			if err != nil {
				add("tree nf=%s bf=%d err", nf, bf)
				continue
			}
			for i := 0; i < 40; i++ {
				m.Insert(bctx, fmt.Sprintf("k%02d", i), i*i)
			}
			root, err := m.MakeRoot(bctx)
			if err != nil {
				add("tree nf=%s bf=%d makeroot err", nf, bf)
				continue
			}
			add("tree string/int nf=%s bf=%d %s", nf, bf, bRootString(root))
			var names []string
			for n := range st.data {
				names = append(names, n)
			}
			sort.Strings(names)
			for _, n := range names {
				add("node nf=%s bf=%d %s %s", nf, bf, n, hex.EncodeToString(st.data[n]))
			}
			st2 := newBStore("mem://vec2")
			m2, _ := NewRoot(&CreateRemoteOptions{BranchFactor: bf, NodeFormat: nf}).LoadMast(bctx, bCfg(st2, nil))
			for i := 0; i < 25; i++ {
				m2.Insert(bctx, i*4-20, i)
			}
			root2, err := m2.MakeRoot(bctx)
			if err == nil {
				add("tree int/int nf=%s bf=%d %s", nf, bf, bRootString(root2))
			}
		}
	}
	// uvarint boundaries: 127/128/129 entries in one node, marshaled values of 127..129 bytes
	for _, nf := range bFormats {
		for _, n := range []int{127, 128, 129, 300} {
			st := newBStore("mem://vec3")
			m, err := NewRoot(&CreateRemoteOptions{BranchFactor: 1024, NodeFormat: nf}).LoadMast(bctx, &RemoteConfig{KeysLike: 0, ValuesLike: "", StoreImmutablePartsWith: st})
			if err != nil {
				continue
			}
			for i := 1; i <= n; i++ {
				m.Insert(bctx, i, strings.Repeat("x", 120+i%12))
			}
			root, err := m.MakeRoot(bctx)
			if err != nil {
				add("wide nf=%s n=%d makeroot err", nf, n)
				continue
			}
			add("wide nf=%s n=%d %s", nf, n, bRootString(root))
			m2, err := root.LoadMast(bctx, &RemoteConfig{KeysLike: 0, ValuesLike: "", StoreImmutablePartsWith: st})
			cnt := 0
			if err == nil {
				err = m2.Iter(bctx, func(k, v interface{}) error { cnt++; return nil })
			}
			add("wide nf=%s n=%d reload entries=%d err=%v", nf, n, cnt, err != nil)
		}
	}
	// a configured marshaler: keys that reach the marshaler path (structs, floats) take their layer
	// and order from that marshaler's bytes
	framed := func(v interface{}) ([]byte, error) {
		b, err := json.Marshal(v)
		return append([]byte("MAST1:"), b...), err
	}
	unframed := func(b []byte, v interface{}) error {
		if !bytes.HasPrefix(b, []byte("MAST1:")) {
			return fmt.Errorf("no frame")
		}
		return json.Unmarshal(b[6:], v)
	}
	for _, nf := range bFormats {
		for _, bf := range []uint{3, 4, 16} {
			st := newBStore("mem://vec4")
			cfg := func() *RemoteConfig {
				return &RemoteConfig{KeysLike: bKeyStruct{}, ValuesLike: 0, StoreImmutablePartsWith: st, Marshal: framed, Unmarshal: unframed}
			}
			m, err := NewRoot(&CreateRemoteOptions{BranchFactor: bf, NodeFormat: nf}).LoadMast(bctx, cfg())
			if err != nil {
				add("marshaler nf=%s bf=%d err", nf, bf)
				continue
			}
			for i := 0; i < 60; i++ {
				m.Insert(bctx, bKeyStruct{A: i * 7 % 60, B: fmt.Sprintf("b%d", i%5)}, i)
			}
			root, err := m.MakeRoot(bctx)
			if err != nil {
				add("marshaler nf=%s bf=%d makeroot err", nf, bf)
				continue
			}
			add("marshaler struct/int nf=%s bf=%d %s", nf, bf, bRootString(root))
			m2, err := root.LoadMast(bctx, cfg())
			cnt, found := 0, 0
			if err == nil {
				err = m2.Iter(bctx, func(k, v interface{}) error { cnt++; return nil })
				for i := 0; i < 60; i++ {
					var v int
					if ok, e := m2.Get(bctx, bKeyStruct{A: i * 7 % 60, B: fmt.Sprintf("b%d", i%5)}, &v); e == nil && ok && v == i {
						found++
					}
				}
			}
			if nf == V115Binary {
				add("marshaler nf=%s bf=%d reload entries=%d found=%d err=%v", nf, bf, cnt, found, err != nil)
			}
			fl, _ := DefaultLayer(framed)(bKeyStruct{A: int(bf), B: "x"}, bf)
			fc, _ := DefaultKeyCompare(framed)(bKeyStruct{A: 2, B: "x"}, bKeyStruct{A: 10, B: "x"})
			add("marshaler nf=%s bf=%d layer=%d cmp=%d", nf, bf, fl, fc)
		}
	}
	// defaults
	r := NewRoot(nil)
	add("default root bf=%d nf=%s size=%d height=%d link=%v", r.BranchFactor, r.NodeFormat, r.Size, r.Height, r.Link == nil)
	im := NewInMemory()
	add("default inmemory bf=%d grow=%d shrink=%d", im.BranchFactor(), im.growAfterSize, im.shrinkBelowSize)
	add("DefaultBranchFactor=%d V1Marshaler=%s V115Binary=%s", DefaultBranchFactor, V1Marshaler, V115Binary)
	return out
}

func TestBounded_C14(t *testing.T) {
	lines := bVectors()
	if p := os.Getenv("BOUNDED_WRITE_VECTORS"); p != "" {
		os.WriteFile(p, []byte(strings.Join(lines, "\n")+"\n"), 0644)
		return
	}
	ref, err := os.ReadFile(os.Getenv("BOUNDED_VECTORS"))
	if err != nil {
		bViolation(t, "C14", "no-vectors", "reference vector file not readable: %v", err)
		return
	}
	want := strings.Split(strings.TrimRight(string(ref), "\n"), "\n")
	bStat("C14.vector_lines", len(want))
	h := sha256.Sum256(ref)
	_ = h
	if len(want) != len(lines) {
		bViolation(t, "C14", "vector-count", "the code produces %d vector lines, the frozen file has %d", len(lines), len(want))
		return
	}
	for i := range want {
		if want[i] != lines[i] {
			kind := strings.Fields(want[i])[0]
			bViolation(t, "C14", "vector-"+kind, "frozen: %s\ncode:   %s", want[i], lines[i])
		}
	}
}

// ---------------------------------------------------------------------------------------------
// C19: loading rejects a root that does not match the configuration

func bMustReject(t *testing.T, sig, desc string, root *Root, cfg *RemoteConfig) {
	var m *Mast
	var err error
	p := bSafely(func() string { m, err = root.LoadMast(bctx, cfg); return "" })
	if p != "" {
		bViolation(t, "C19", "panic-"+sig, "%s: LoadMast(%s) %s", desc, bRootString(root), p)
		return
	}
	if err == nil {
		bViolation(t, "C19", "accepted-"+sig, "%s: LoadMast(%s) returned a tree (size %d) instead of an error", desc, bRootString(root), m.Size())
	}
}

func TestBounded_C19(t *testing.T) {
	cases := 0
	for _, nf := range bFormats {
		for _, bf := range []uint{2, 4} {
			st := newBStore("mem://reject")
			model := map[int]int{}
			for k := 0; k < 40; k++ {
				model[k] = k % 5
			}
			m, err := bBuild(bf, nf, st, model, 0, false)
			if err != nil {
				continue
			}
			good, err := m.MakeRoot(bctx)
			if err != nil || good.Link == nil {
				continue
			}
			if _, err := good.LoadMast(bctx, bCfg(st, nil)); err != nil {
				bViolation(t, "C05", "reload-error", "nf=%s bf=%d: the genuine root does not load: %v", nf, bf, err)
				continue
			}
			mk := func(f func(r *Root)) *Root { r := *good; f(&r); return &r }
			// unknown node format
			cases++
			bMustReject(t, "unknown-format", fmt.Sprintf("nf=%s bf=%d unknown node format", nf, bf), mk(func(r *Root) { r.NodeFormat = "v9bogus" }), bCfg(st, nil))
			// missing top node
			cases++
			missing := "AAAAAAAAAAAAAAAAAAAAAAAAAAAAAAAAAAAAAAAAAAA"
			bMustReject(t, "missing-top", fmt.Sprintf("nf=%s bf=%d top node not in the store", nf, bf), mk(func(r *Root) { r.Link = &missing }), bCfg(st, nil))
			// undecodable top node (truncations and garbage)
			top := st.data[*good.Link]
			for cut := 0; cut < len(top); cut += 1 + len(top)/23 {
				name := fmt.Sprintf("trunc-%d", cut)
				st.data[name] = append([]byte(nil), top[:cut]...)
				cases++
				nm := name
				r := mk(func(r *Root) { r.Link = &nm })
				var lm *Mast
				var lerr error
				if p := bSafely(func() string { lm, lerr = r.LoadMast(bctx, bCfg(st, nil)); return "" }); p != "" {
					bViolation(t, "C19", "panic-undecodable", "nf=%s bf=%d top node truncated to %d of %d bytes: LoadMast %s", nf, bf, cut, len(top), p)
				} else if lerr == nil {
					// a truncation can decode to a well-formed smaller node only if it is self-consistent;
					// then it must at least not claim entries it does not have
					if msg := bSafely(func() string {
						n := 0
						err := lm.Iter(bctx, func(k, v interface{}) error { n++; return nil })
						if err == nil && uint64(n) == lm.Size() {
							return fmt.Sprintf("accepted a truncated node and iterates %d entries matching the recorded size", n)
						}
						return ""
					}); msg != "" {
						bViolation(t, "C19", "accepted-undecodable", "nf=%s bf=%d top node truncated to %d of %d bytes: %s", nf, bf, cut, len(top), msg)
					}
				}
			}
			for i, garbage := range [][]byte{{0xff}, {0xff, 0xff, 0xff, 0xff, 0xff, 0xff, 0xff, 0xff, 0xff, 0x01}, {0x80}, []byte("{"), []byte("null"), []byte(`{"Key":[1],"Value":[]}`), []byte(`{"Key":[1,2],"Value":[1,2],"Link":["a"]}`), {0x02, 0x01, 0x31, 0x01, 0x32, 0x01, 0x01, 0x31, 0x00}, {0x01, 0x01, 0x31, 0x01, 0x01, 0x31, 0x05}} {
				name := fmt.Sprintf("garbage-%d", i)
				st.data[name] = garbage
				cases++
				nm := name
				r := mk(func(r *Root) { r.Link = &nm })
				var lm *Mast
				var lerr error
				if p := bSafely(func() string { lm, lerr = r.LoadMast(bctx, bCfg(st, nil)); return "" }); p != "" {
					bViolation(t, "C19", "panic-undecodable", "nf=%s bf=%d top node bytes %q: LoadMast %s", nf, bf, garbage, p)
				} else if lerr == nil {
					if p := bSafely(func() string {
						return fmt.Sprint(lm.Iter(bctx, func(k, v interface{}) error { return nil }))
					}); strings.HasPrefix(p, "panic") {
						bViolation(t, "C19", "panic-undecodable", "nf=%s bf=%d top node bytes %q accepted, iteration then %s", nf, bf, garbage, p)
					}
				}
			}
			// mismatched entry and link counts, unsorted keys, key layer below the height: crafted nodes
			craft := func(n *mastNode) string {
				var b []byte
				var err error
				if nf == V115Binary {
					b, err = marshalMastNode(n, defaultMarshal)
				} else {
					b, err = defaultMarshal(n.Node)
				}
				if err != nil {
					return ""
				}
				name := nameOfBytes(b)
				st.data[name] = b
				return name
			}
			type crafted struct {
				sig  string
				node mastNode
				h    uint8
			}
			ifs := func(v ...interface{}) []interface{} { return v }
			high := int(bf * bf * bf)
			for _, c := range []crafted{
				{"count-mismatch", mastNode{Node: Node{Key: ifs(high, 2*high), Value: ifs(1), Link: ifs(nil, nil, nil)}}, 0},
				{"count-mismatch", mastNode{Node: Node{Key: ifs(high), Value: ifs(1, 2), Link: ifs(nil, nil)}}, 0},
				{"link-count-mismatch", mastNode{Node: Node{Key: ifs(high, 2*high), Value: ifs(1, 2), Link: ifs(nil, "x")}}, 0},
				{"link-count-mismatch", mastNode{Node: Node{Key: ifs(high), Value: ifs(1), Link: ifs(nil, "x", nil, nil)}}, 0},
				{"unsorted-keys", mastNode{Node: Node{Key: ifs(2*high, high), Value: ifs(1, 2), Link: ifs(nil, nil, nil)}}, 0},
				{"unsorted-keys", mastNode{Node: Node{Key: ifs(high, high), Value: ifs(1, 2), Link: ifs(nil, nil, nil)}}, 0},
				{"unsorted-keys", mastNode{Node: Node{Key: ifs(high, 2*high, 3*high, 2*high), Value: ifs(1, 2, 3, 4), Link: ifs(nil, nil, nil, nil, nil)}}, 0},
				{"layer-below-height", mastNode{Node: Node{Key: ifs(1, high), Value: ifs(1, 2), Link: ifs(nil, nil, nil)}}, 2},
				{"layer-below-height", mastNode{Node: Node{Key: ifs(high, high+1), Value: ifs(1, 2), Link: ifs(nil, nil, nil)}}, 1},
			} {
				n := c.node
				name := craft(&n)
				if name == "" {
					continue
				}
				cases++
				nm := name
				bMustReject(t, c.sig, fmt.Sprintf("nf=%s bf=%d crafted top node keys=%v values=%v links=%v height=%d", nf, bf, n.Key, n.Value, n.Link, c.h), &Root{Link: &nm, Size: uint64(len(n.Key)), Height: c.h, BranchFactor: bf, NodeFormat: string(nf)}, bCfg(st, nil))
			}
			// a root written with another branch factor: keys' layers no longer fit the height
			if good.Height > 0 {
				cases++
				bMustReject(t, "layer-below-height", fmt.Sprintf("nf=%s bf=%d genuine root re-labelled with branch factor %d", nf, bf, bf+1), mk(func(r *Root) { r.BranchFactor = bf + 1 }), bCfg(st, nil))
			}
			// a key order other than the one the tree was written with
			cases++
			rev := bCfg(st, nil)
			rev.KeyCompare = func(a, b interface{}) (int, error) {
				x, y := a.(int), b.(int)
				switch {
				case x > y:
					return -1, nil
				case x < y:
					return 1, nil
				}
				return 0, nil
			}
			topNode, _ := m.load(bctx, *good.Link)
			if topNode != nil && len(topNode.Key) >= 2 {
				bMustReject(t, "unsorted-keys", fmt.Sprintf("nf=%s bf=%d genuine root loaded with the reversed key order", nf, bf), good, rev)
			}
		}
	}
	bStat("C19.cases", cases)
}
