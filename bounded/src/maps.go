package mast

import (
	"encoding/json"
	"fmt"
	"os"
	"sort"
	"testing"
)

// bounds of the exhaustive exploration (stated in the evidence)
func bDepth() int {
	// BOUNDED_DEPTH: exploration beyond the registered tiers (not used by ./check)
	var d int
	if _, err := fmt.Sscanf(os.Getenv("BOUNDED_DEPTH"), "%d", &d); err == nil && d > 0 {
		return d
	}
	if bTier() == "thorough" {
		return 4
	}
	return 3
}

const bUniv = 4 // keys 0..3 (layers 0..2 at branch factor 2)
const bVals = 2

type bVisit func(m *Mast, model map[int]int, hist []bOp, st *bStore)

// bExplore walks every history of at most depth operations from the empty tree, for one branch
// factor, node format and persistence mode:
//
//	mode 0: never persisted; mode 1: persisted and re-loaded after every operation (no cache);
//	mode 2: persisted after every operation, same tree continues, shared node cache.
//
// Every step works on a Clone of the parent state, and after the subtree of histories below a
// state has been explored the parent is compared with its model again (C02).
func bExplore(t *testing.T, bf uint, nf nodeFormat, mode, depth int, visit bVisit) int {
	st := newBStore("mem://explore")
	var cache NodeCache
	if mode == 2 {
		cache = NewNodeCache(1000)
	}
	m0, err := bNewTree(bf, nf, st, cache)
	if err != nil {
		bViolation(t, "C01", "new-tree", "bf=%d nf=%s: %v", bf, nf, err)
		return 0
	}
	ops := bAllOps(bUniv, bVals)
	states := 0
	cfg := fmt.Sprintf("bf=%d nf=%s mode=%d", bf, nf, mode)
	var rec func(m *Mast, model map[int]int, hist []bOp, d int)
	rec = func(m *Mast, model map[int]int, hist []bOp, d int) {
		states++
		if visit != nil {
			visit(m, model, hist, st)
		}
		if d == 0 {
			return
		}
		for _, o := range ops {
			c, err := m.Clone(bctx)
			if err != nil {
				bViolation(t, "C01", "clone-error", "%s history: %s\nClone failed: %v", cfg, bHist(hist), err)
				continue
			}
			cm := &c
			model2 := bCopyModel(model)
			h2 := append(append([]bOp(nil), hist...), o)
			if msg := bSafely(func() string { return bApply(cm, model2, o) }); msg != "" {
				bViolation(t, "C01", "op-outcome", "%s history: %s\n%s", cfg, bHist(h2), msg)
				continue
			}
			switch mode {
			case 1:
				m2, _, err := bReload(cm, st, nil, len(h2)%2 == 0)
				if err != nil {
					bViolation(t, "C05", "reload-error", "%s history: %s\npersist+load failed: %v", cfg, bHist(h2), err)
					continue
				}
				if m2.Size() != cm.Size() || m2.Height() != cm.Height() || m2.BranchFactor() != cm.BranchFactor() || m2.nodeFormat != cm.nodeFormat {
					bViolation(t, "C05", "reload-meta", "%s history: %s\nreloaded size/height/bf/format %d/%d/%d/%s, persisted tree had %d/%d/%d/%s", cfg, bHist(h2), m2.Size(), m2.Height(), m2.BranchFactor(), m2.nodeFormat, cm.Size(), cm.Height(), cm.BranchFactor(), cm.nodeFormat)
				}
				if msg := bCompare(m2, model2, bUniv); msg != "" {
					bViolation(t, "C05", "reload-contents", "%s history: %s\nafter persist+load: %s", cfg, bHist(h2), msg)
					continue
				}
				cm = m2
			case 2:
				if _, err := cm.MakeRoot(bctx); err != nil {
					bViolation(t, "C03", "makeroot-error", "%s history: %s\nMakeRoot on a healthy store failed: %v", cfg, bHist(h2), err)
					continue
				}
			}
			if msg := bCompare(cm, model2, bUniv); msg != "" {
				bViolation(t, "C01", "model-mismatch", "%s history: %s\n%s", cfg, bHist(h2), msg)
				continue
			}
			rec(cm, model2, h2, d-1)
			// the parent version must not have been changed by anything done to its clone
			if msg := bCompare(m, model, bUniv); msg != "" {
				bViolation(t, "C02", "clone-changed-source", "%s history: %s\nafter working on a clone (then %v and everything below it) the source tree changed: %s", cfg, bHist(hist), o, msg)
			}
		}
	}
	rec(m0, map[int]int{}, nil, depth)
	return states
}

var bFormats = []nodeFormat{V115Binary, V1Marshaler}

func TestBounded_C01(t *testing.T) {
	total := 0
	for _, bf := range []uint{2, 3} {
		for mode := 0; mode <= 2; mode++ {
			nf := bFormats[(int(bf)+mode)%2]
			total += bExplore(t, bf, nf, mode, bDepth(), func(m *Mast, model map[int]int, hist []bOp, st *bStore) {
				// read-only calls do not change the map
				before, _ := bEntries(m)
				var x int
				m.Get(bctx, 1, &x)
				m.Get(bctx, 99, &x)
				m.Iter(bctx, func(k, v interface{}) error { return nil })
				m.SeekIter(bctx, 1, func(k, v interface{}) error { return nil })
				after, _ := bEntries(m)
				if fmt.Sprint(before) != fmt.Sprint(after) || m.Size() != uint64(len(model)) {
					bViolation(t, "C01", "read-only-changed", "bf=%d mode=%d history: %s\nread-only calls changed the map from %v to %v", bf, mode, bHist(hist), before, after)
				}
			})
		}
	}
	bStat("C01.exhaustive_states", total)
	bRandomHistories(t, "C01")
	bKeyTypes(t)
	// value types other than scalars, read back from stored nodes
	bTypedRoundTrip(t)
}

// bKeyTypes: every built-in key type, including the extremes of its range, under the default
// order: keys are given in ascending order, inserted shuffled, and must come back ascending.
func bKeyTypes(t *testing.T) {
	type fam struct {
		name string
		like interface{}
		keys []interface{}
	}
	const maxI, minI = int64(9223372036854775807), int64(-9223372036854775808)
	fams := []fam{
		{"int", int(0), []interface{}{int(minI), int(minI + 1), -1 << 40, -3, -1, 0, 1, 2, 1 << 40, int(maxI - 1), int(maxI)}},
		{"int64", int64(0), []interface{}{minI, minI + 1, int64(-1 << 40), int64(-1), int64(0), int64(1), int64(1 << 40), maxI - 1, maxI}},
		{"uint64", uint64(0), []interface{}{uint64(0), uint64(1), uint64(1 << 40), uint64(1<<63 - 1), uint64(1 << 63), uint64(1<<64 - 2), uint64(1<<64 - 1)}},
		{"uint", uint(0), []interface{}{uint(0), uint(1), uint(1 << 63), uint(1<<64 - 1)}},
		{"string", "", []interface{}{"", "\x00", "A", "B", "a", "aa", "ab", "b", "zz"}},
		// key types without a native case are ordered by the bytes of their marshaled (JSON) form
		{"int32", int32(0), bSortByJSON([]interface{}{int32(-20), int32(-3), int32(-1), int32(0), int32(1), int32(9), int32(10), int32(11), int32(100), int32(2147483647)})},
		{"uint16", uint16(0), bSortByJSON([]interface{}{uint16(0), uint16(1), uint16(2), uint16(9), uint16(10), uint16(99), uint16(100), uint16(65535)})},
		{"int8", int8(0), bSortByJSON([]interface{}{int8(-128), int8(-9), int8(-1), int8(0), int8(5), int8(10), int8(127)})},
		{"struct", bKeyStruct{}, bSortByJSON([]interface{}{bKeyStruct{1, "a"}, bKeyStruct{1, "b"}, bKeyStruct{2, ""}, bKeyStruct{10, "a"}, bKeyStruct{9, "z"}})},
	}
	n := 0
	for _, f := range fams {
		for _, bf := range []uint{2, 16} {
			for _, nf := range bFormats {
				st := newBStore("mem://keytypes")
				m, err := NewRoot(&CreateRemoteOptions{BranchFactor: bf, NodeFormat: nf}).LoadMast(bctx, &RemoteConfig{KeysLike: f.like, ValuesLike: int(0), StoreImmutablePartsWith: st})
				if err != nil {
					continue
				}
				order := make([]int, len(f.keys))
				for i := range order {
					order[i] = (i*5 + 3) % len(f.keys)
				}
				seen := map[int]bool{}
				for _, i := range order {
					if seen[i] {
						continue
					}
					seen[i] = true
					if err := m.Insert(bctx, f.keys[i], i); err != nil {
						bViolation(t, "C01", "keytype-insert", "%s keys bf=%d nf=%s: Insert(%v) failed: %v", f.name, bf, nf, f.keys[i], err)
					}
				}
				for i := range f.keys {
					if !seen[i] {
						m.Insert(bctx, f.keys[i], i)
					}
				}
				for round := 0; round < 2; round++ {
					n++
					var got []interface{}
					err := m.Iter(bctx, func(k, v interface{}) error { got = append(got, k); return nil })
					if err != nil || fmt.Sprint(got) != fmt.Sprint(f.keys) {
						bViolation(t, "C01", "keytype-order", "%s keys bf=%d nf=%s (round %d: 0 in memory, 1 re-loaded): iteration yields %v (err %v), ascending order is %v", f.name, bf, nf, round, got, err, f.keys)
						break
					}
					for i, k := range f.keys {
						var v int
						ok, err := m.Get(bctx, k, &v)
						if err != nil || !ok || v != i {
							bViolation(t, "C01", "keytype-lookup", "%s keys bf=%d nf=%s (round %d): Get(%v) = %d found=%v err=%v, want %d", f.name, bf, nf, round, k, v, ok, err, i)
						}
					}
					root, err := m.MakeRoot(bctx)
					if err != nil {
						break
					}
					m, err = root.LoadMast(bctx, &RemoteConfig{KeysLike: f.like, ValuesLike: int(0), StoreImmutablePartsWith: st})
					if err != nil {
						bViolation(t, "C05", "reload-error", "%s keys bf=%d nf=%s: LoadMast: %v", f.name, bf, nf, err)
						break
					}
				}
			}
		}
	}
	bStat("C01.keytype_rounds", n)
}

// bRandomHistories: seeded random histories over keys 0..31 (deep trees at small branch factors),
// mixing clones, persists and reloads; each step is compared with the model, and snapshots taken
// along the way (clones and persisted roots) are compared with their own models at the end.
func bRandomHistories(t *testing.T, prop string) {
	seeds := 40
	steps := 60
	if bTier() == "thorough" {
		seeds, steps = bScale(400), 120
	}
	univ := 32
	for seed := 1; seed <= seeds; seed++ {
		r := &bRand{uint64(seed)*2654435761 + 12345}
		bf := uint(2 + r.intn(4))
		if seed%7 == 0 {
			bf = 16
		}
		nf := bFormats[r.intn(2)]
		st := newBStore("mem://random")
		var cache NodeCache
		if r.intn(2) == 0 {
			cache = NewNodeCache(64)
		}
		cfg := fmt.Sprintf("seed=%d bf=%d nf=%s cache=%v", seed, bf, nf, cache != nil)
		m, err := bNewTree(bf, nf, st, cache)
		if err != nil {
			bViolation(t, prop, "new-tree", "%s: %v", cfg, err)
			continue
		}
		model := map[int]int{}
		type snap struct {
			m     *Mast
			root  *Root
			model map[int]int
			at    int
		}
		var snaps []snap
		var hist []bOp
		ok := true
		for i := 0; i < steps && ok; i++ {
			o := bOp{Del: r.intn(3) == 0, K: r.intn(univ), V: r.intn(2)}
			if o.Del && r.intn(2) == 0 {
				// bias deletes towards present entries
				if ks := bModelKeys(model); len(ks) > 0 {
					o.K = ks[r.intn(len(ks))]
					o.V = model[o.K]
				}
			}
			hist = append(hist, o)
			if msg := bSafely(func() string { return bApply(m, model, o) }); msg != "" {
				bViolation(t, "C01", "op-outcome", "%s history: %s\n%s", cfg, bHist(hist), msg)
				ok = false
				break
			}
			switch r.intn(8) {
			case 0: // snapshot by clone
				c, err := m.Clone(bctx)
				if err == nil {
					snaps = append(snaps, snap{m: &c, model: bCopyModel(model), at: i})
				}
			case 1: // snapshot by persisted root, keep using the tree
				root, err := m.MakeRoot(bctx)
				if err != nil {
					bViolation(t, "C03", "makeroot-error", "%s history: %s\nMakeRoot failed on a healthy store: %v", cfg, bHist(hist), err)
					ok = false
				} else {
					snaps = append(snaps, snap{root: root, model: bCopyModel(model), at: i})
				}
			case 2: // continue on a re-loaded tree, sometimes through a cold cache (another process)
				if cache != nil && r.intn(2) == 0 {
					if _, err := m.MakeRoot(bctx); err == nil {
						cache = NewNodeCache(64)
					}
				}
				m2, root, err := bReload(m, st, cache, r.intn(2) == 0)
				if err != nil {
					bViolation(t, "C05", "reload-error", "%s history: %s\n%v", cfg, bHist(hist), err)
					ok = false
				} else {
					snaps = append(snaps, snap{root: root, model: bCopyModel(model), at: i})
					m = m2
				}
			}
			if !ok {
				break
			}
			if msg := bCompare(m, model, univ); msg != "" {
				bViolation(t, "C01", "model-mismatch", "%s history: %s\n%s", cfg, bHist(hist), msg)
				ok = false
			}
		}
		for _, s := range snaps {
			sm := s.m
			if sm == nil {
				var err error
				sm, err = s.root.LoadMast(bctx, bCfg(st, cache))
				if err != nil {
					bViolation(t, "C02", "snapshot-unloadable", "%s history: %s\nroot persisted after step %d (%s) no longer loads: %v", cfg, bHist(hist), s.at, bRootString(s.root), err)
					continue
				}
			}
			if msg := bCompare(sm, s.model, univ); msg != "" {
				kind := "clone"
				if s.root != nil {
					kind = "persisted root"
				}
				bViolation(t, "C02", "snapshot-changed", "%s history: %s\n%s captured after step %d changed afterwards: %s", cfg, bHist(hist), kind, s.at, msg)
			}
		}
	}
	bStat(prop+".random_histories", seeds)
	bStat(prop+".random_history_length", steps)
}

func TestBounded_C02(t *testing.T) {
	total := 0
	for _, bf := range []uint{2, 3} {
		for mode := 0; mode <= 2; mode++ {
			total += bExplore(t, bf, bFormats[mode%2], mode, bDepth(), nil)
		}
	}
	bStat("C02.exhaustive_states", total)
	bRandomHistories(t, "C02")
}

// ---------------------------------------------------------------------------------------------
// C04 canonical form / C09 shape

func bExpectedHeight(model map[int]int, bf uint) uint8 {
	if len(model) < 2 {
		return 0
	}
	maxLayer := uint8(0)
	for k := range model {
		if l := intLayer(int64(k), bf); l > maxLayer {
			maxLayer = l
		}
	}
	// floor(log_bf(size-1))
	lg := uint8(0)
	for n := uint64(len(model) - 1); n >= uint64(bf); n /= uint64(bf) {
		lg++
	}
	if lg < maxLayer {
		return lg
	}
	return maxLayer
}

// bWalkShape loads the version from its root and checks the shape invariants of C09.
func bWalkShape(root *Root, st Persist, model map[int]int) string {
	m, err := root.LoadMast(bctx, bCfg(st, nil))
	if err != nil {
		return fmt.Sprintf("LoadMast(%s): %v", bRootString(root), err)
	}
	count := 0
	bf := root.BranchFactor
	var walk func(link interface{}, level int, lo, hi *int, top bool) string
	walk = func(link interface{}, level int, lo, hi *int, top bool) string {
		if level < 0 {
			return "a node lies below level 0"
		}
		n, err := m.load(bctx, link)
		if err != nil {
			return fmt.Sprintf("load %v: %v", link, err)
		}
		if len(n.Link) != len(n.Key)+1 || len(n.Value) != len(n.Key) {
			return fmt.Sprintf("node %v has %d keys, %d values, %d links", link, len(n.Key), len(n.Value), len(n.Link))
		}
		if len(n.Key) == 0 && n.Link[0] == nil {
			// also for the empty tree: it has no nodes at all (its root link is nil)
			return fmt.Sprintf("entry-less node %v without a child is stored", link)
		}
		prev := lo
		for i, k := range n.Key {
			ki := k.(int)
			count++
			if prev != nil && ki <= *prev {
				return fmt.Sprintf("node %v: key %d is not above %d (order / range)", link, ki, *prev)
			}
			if hi != nil && ki >= *hi {
				return fmt.Sprintf("node %v: key %d is not below the parent's neighbour %d", link, ki, *hi)
			}
			l := int(intLayer(int64(ki), bf))
			if l != level && !(top && l > level) {
				return fmt.Sprintf("node %v at level %d holds key %d of layer %d", link, level, ki, l)
			}
			_ = i
			kk := ki
			prev = &kk
		}
		for i, c := range n.Link {
			if c == nil {
				continue
			}
			if level == 0 {
				return fmt.Sprintf("level-0 node %v has a child", link)
			}
			clo, chi := lo, hi
			if i > 0 {
				v := n.Key[i-1].(int)
				clo = &v
			}
			if i < len(n.Key) {
				v := n.Key[i].(int)
				chi = &v
			}
			if msg := walk(c, level-1, clo, chi, false); msg != "" {
				return msg
			}
		}
		return ""
	}
	if root.Link != nil {
		if msg := walk(*root.Link, int(root.Height), nil, nil, true); msg != "" {
			return msg
		}
		// every key of a range whose layer is the node's level must be in that node: since all keys
		// are in some node at a level no higher than their layer (checked above) and nodes hold only
		// keys of their own level, a key of layer d sits at level d unless d > height (top node).
	}
	if uint64(count) != root.Size {
		return fmt.Sprintf("root records size %d, %d entries are reachable", root.Size, count)
	}
	if model != nil && count != len(model) {
		return fmt.Sprintf("%d entries reachable, model has %d", count, len(model))
	}
	return ""
}

func TestBounded_C04(t *testing.T) {
	total := 0
	for _, bf := range []uint{2, 3} {
		for mode := 0; mode <= 2; mode++ {
			nf := bFormats[mode%2]
			canon := map[string]string{}
			canonHist := map[string]string{}
			total += bExplore(t, bf, nf, mode, bDepth(), func(m *Mast, model map[int]int, hist []bOp, st *bStore) {
				c, err := m.Clone(bctx)
				if err != nil {
					return
				}
				root, err := c.MakeRoot(bctx)
				if err != nil {
					bViolation(t, "C03", "makeroot-error", "bf=%d mode=%d history: %s\nMakeRoot failed: %v", bf, mode, bHist(hist), err)
					return
				}
				key := bModelString(model)
				rs := bRootString(root)
				if prev, ok := canon[key]; ok && prev != rs {
					bViolation(t, "C04", "not-canonical", "bf=%d nf=%s mode=%d: contents %s\n history A: %s -> %s\n history B: %s -> %s", bf, nf, mode, key, canonHist[key], prev, bHist(hist), rs)
				} else if !ok {
					canon[key] = rs
					canonHist[key] = bHist(hist)
				}
				if want := bExpectedHeight(model, bf); root.Height != want {
					bViolation(t, "C04", "height-rule", "bf=%d mode=%d history: %s\ncontents %s persisted with height %d, the size rule gives %d", bf, mode, bHist(hist), key, root.Height, want)
				}
				if root.Size != uint64(len(model)) {
					bViolation(t, "C09", "root-size", "bf=%d mode=%d history: %s\nroot size %d, model has %d entries", bf, mode, bHist(hist), root.Size, len(model))
				}
			})
		}
	}
	bStat("C04.exhaustive_states", total)
	// canonical form across random long histories: the same final contents reached by a shuffled
	// insertion order and by insert-then-delete detours give the same root
	seeds := 30
	if bTier() == "thorough" {
		seeds = bScale(300)
	}
	for seed := 1; seed <= seeds; seed++ {
		r := &bRand{uint64(seed)*11400714819323198485 + 7}
		bf := uint(2 + r.intn(3))
		nf := bFormats[r.intn(2)]
		n := 1 + r.intn(24)
		model := map[int]int{}
		for len(model) < n {
			model[r.intn(64)] = r.intn(3)
		}
		ks := bModelKeys(model)
		var roots []string
		var hists []string
		for variant := 0; variant < 3; variant++ {
			st := newBStore("mem://canon")
			m, _ := bNewTree(bf, nf, st, nil)
			order := append([]int(nil), ks...)
			switch variant {
			case 1:
				sort.Sort(sort.Reverse(sort.IntSlice(order)))
			case 2:
				for i := len(order) - 1; i > 0; i-- {
					j := r.intn(i + 1)
					order[i], order[j] = order[j], order[i]
				}
			}
			var hist []bOp
			bad := false
			for i, k := range order {
				ops := []bOp{{false, k, model[k]}}
				if variant == 2 && i%3 == 0 {
					// a detour: insert a foreign key and another value, then undo both
					ops = []bOp{{false, 100 + k, 1}, {false, k, model[k] + 5}, {false, k, model[k]}, {true, 100 + k, 1}}
				}
				for _, o := range ops {
					hist = append(hist, o)
					var err error
					if o.Del {
						err = m.Delete(bctx, o.K, o.V)
					} else {
						err = m.Insert(bctx, o.K, o.V)
					}
					if err != nil {
						bViolation(t, "C01", "op-outcome", "bf=%d nf=%s history: %s\n%v failed: %v", bf, nf, bHist(hist), o, err)
						bad = true
					}
				}
				if variant == 2 && i%5 == 0 {
					if m2, _, err := bReload(m, st, nil, false); err == nil {
						m = m2
					}
				}
			}
			if bad {
				continue
			}
			root, err := m.MakeRoot(bctx)
			if err != nil {
				bViolation(t, "C03", "makeroot-error", "bf=%d history: %s\nMakeRoot failed: %v", bf, bHist(hist), err)
				continue
			}
			roots = append(roots, bRootString(root))
			hists = append(hists, bHist(hist))
			if msg := bWalkShape(root, st, model); msg != "" {
				bViolation(t, "C09", "shape", "bf=%d nf=%s history: %s\npersisted version %s violates the shape invariants: %s", bf, nf, bHist(hist), bRootString(root), msg)
			}
			if want := bExpectedHeight(model, bf); root.Height != want {
				bViolation(t, "C04", "height-rule", "bf=%d history: %s\ncontents %s persisted with height %d, the size rule gives %d", bf, bHist(hist), bModelString(model), root.Height, want)
			}
		}
		for i := 1; i < len(roots); i++ {
			if roots[i] != roots[0] {
				bViolation(t, "C04", "not-canonical", "bf=%d nf=%s contents %s\n history A: %s -> %s\n history B: %s -> %s", bf, nf, bModelString(model), hists[0], roots[0], hists[i], roots[i])
			}
		}
	}
	bStat("C04.random_contents", seeds)
	// a single insert that has to raise the tree by two levels at once
	for _, bf := range []uint{2, 3} {
		st := newBStore("mem://jump")
		m, _ := bNewTree(bf, V115Binary, st, nil)
		model := map[int]int{}
		var hist []bOp
		for k := 1; len(model) < int(bf*bf)+1; k++ {
			if uint(k)%bf == 0 {
				continue
			}
			m.Insert(bctx, k, 0)
			model[k] = 0
			hist = append(hist, bOp{false, k, 0})
		}
		k := int(bf * bf * bf)
		m.Insert(bctx, k, 1)
		model[k] = 1
		hist = append(hist, bOp{false, k, 1})
		if root, err := m.MakeRoot(bctx); err == nil {
			if want := bExpectedHeight(model, bf); root.Height != want {
				bViolation(t, "C04", "height-rule", "bf=%d history: %s\ncontents %s persisted with height %d, the size rule gives %d", bf, bHist(hist), bModelString(model), root.Height, want)
			}
			if msg := bWalkShape(root, st, model); msg != "" {
				bViolation(t, "C09", "shape", "bf=%d history: %s\npersisted version %s: %s", bf, bHist(hist), bRootString(root), msg)
			}
		}
	}
	// the height follows the highest key layer down as well as up: delete the only high-layer keys
	for _, bf := range []uint{2, 3} {
		for _, nf := range bFormats {
			st := newBStore("mem://layerdrop")
			a, _ := bNewTree(bf, nf, st, nil)
			b, _ := bNewTree(bf, nf, st, nil)
			model := map[int]int{}
			var hist []bOp
			high := []int{int(bf * bf * bf), int(bf * bf)}
			for _, k := range high {
				a.Insert(bctx, k, 1)
				hist = append(hist, bOp{false, k, 1})
			}
			for k := 1; len(model) < int(bf*bf*bf*bf)+1; k++ {
				if uint(k)%bf == 0 {
					continue
				}
				a.Insert(bctx, k, 0)
				b.Insert(bctx, k, 0)
				model[k] = 0
				hist = append(hist, bOp{false, k, 0})
			}
			for _, k := range high {
				if err := a.Delete(bctx, k, 1); err != nil {
					bViolation(t, "C01", "op-outcome", "bf=%d history: %s\nDelete(%d,1) failed: %v", bf, bHist(hist), k, err)
				}
				hist = append(hist, bOp{true, k, 1})
			}
			ra, erra := a.MakeRoot(bctx)
			rb, errb := b.MakeRoot(bctx)
			if erra != nil || errb != nil {
				bViolation(t, "C03", "makeroot-error", "bf=%d history: %s\nMakeRoot failed: %v %v", bf, bHist(hist), erra, errb)
				continue
			}
			if bRootString(ra) != bRootString(rb) {
				bViolation(t, "C04", "not-canonical-layer-drop", "bf=%d nf=%s contents %s\n history A (high-layer keys inserted, then deleted): %s -> %s\n history B (never had them) -> %s", bf, nf, bModelString(model), bHist(hist), bRootString(ra), bRootString(rb))
			}
			if msg := bWalkShape(ra, st, model); msg != "" {
				bViolation(t, "C09", "shape-layer-drop", "bf=%d nf=%s history: %s\npersisted version %s: %s", bf, nf, bHist(hist), bRootString(ra), msg)
			}
		}
	}
}

func TestBounded_C09(t *testing.T) {
	total := 0
	for _, bf := range []uint{2, 3, 4} {
		for mode := 0; mode <= 2; mode++ {
			nf := bFormats[(mode+1)%2]
			total += bExplore(t, bf, nf, mode, bDepth(), func(m *Mast, model map[int]int, hist []bOp, st *bStore) {
				c, err := m.Clone(bctx)
				if err != nil {
					return
				}
				root, err := c.MakeRoot(bctx)
				if err != nil {
					return
				}
				if msg := bWalkShape(root, st, model); msg != "" {
					bViolation(t, "C09", "shape", "bf=%d nf=%s mode=%d history: %s\npersisted version %s violates the shape invariants: %s", bf, nf, mode, bHist(hist), bRootString(root), msg)
				}
			})
		}
	}
	bStat("C09.exhaustive_states", total)
	// versions persisted after a Delete that failed on a store fault are still well-shaped and
	// record the number of entries they reach
	seeds := 10
	if bTier() == "thorough" {
		seeds = bScale(60)
	}
	cases := 0
	for seed := 1; seed <= seeds; seed++ {
		r := &bRand{uint64(seed)*0xE7037ED1A0B428DB + 41}
		bf := uint(2 + r.intn(3))
		nf := bFormats[r.intn(2)]
		st := newBStore("mem://shape-after-fault")
		model := map[int]int{}
		for i, n := 0, 6+r.intn(24); i < n; i++ {
			model[r.intn(40)] = r.intn(3)
		}
		if seed%2 == 0 {
			// sizes just above a power of the branch factor: the delete has to lower the tree,
			// which reads the children of the top node
			model = map[int]int{}
			sz := int(bf) + 1
			if seed%4 == 0 {
				sz = int(bf*bf) + 1
			}
			for k := 1; k <= sz; k++ {
				model[k] = k % 3
			}
		}
		base, err := bBuild(bf, nf, st, model, 0, false)
		if err != nil {
			continue
		}
		root, err := base.MakeRoot(bctx)
		if err != nil {
			continue
		}
		for _, k := range bModelKeys(model) {
			for n := 1; n <= 12; n++ {
				m, err := root.LoadMast(bctx, bCfg(st, nil))
				if err != nil {
					break
				}
				// make the entry's node private first (an update), as a live tree would have it
				val := model[k]
				if n%2 == 0 {
					val += 10
					if err := m.Insert(bctx, k, val); err != nil {
						break
					}
				}
				st.reset()
				st.failLoad = n
				if n%4 == 0 {
					st.failAll = true
				}
				var derr error
				p := bSafely(func() string { derr = m.Delete(bctx, k, val); return "" })
				st.reset()
				if p != "" || derr == nil {
					break
				}
				cases++
				r2, err := m.MakeRoot(bctx)
				if err != nil {
					continue
				}
				if msg := bWalkShape(r2, st, nil); msg != "" {
					bViolation(t, "C09", "shape-after-failed-delete", "seed=%d bf=%d nf=%s contents %s\nDelete(%d,%d) failed (%d-th store Load failing: %v); the version persisted afterwards (%s) is malformed: %s", seed, bf, nf, bModelString(model), k, model[k], n, derr, bRootString(r2), msg)
				}
			}
		}
	}
	bStat("C09.failed_delete_cases", cases)
	// the same for an Insert of a new key that failed on a store fault before it took effect (a
	// failure after the entry is in — the open C12 finding about growing — is left to C12)
	icases := 0
	for seed := 1; seed <= seeds; seed++ {
		r := &bRand{uint64(seed)*0x9FB21C651E98DF25 + 17}
		bf := uint(2 + r.intn(3))
		nf := bFormats[r.intn(2)]
		st := newBStore("mem://shape-after-failed-insert")
		model := map[int]int{}
		for i, n := 0, 8+r.intn(24); i < n; i++ {
			model[r.intn(40)] = r.intn(3)
		}
		base, err := bBuild(bf, nf, st, model, 0, false)
		if err != nil {
			continue
		}
		root, err := base.MakeRoot(bctx)
		if err != nil {
			continue
		}
		ks := bModelKeys(model)
		for k := -1; k <= 40; k++ {
			if _, in := model[k]; in {
				continue
			}
			for n := 1; n <= 8; n++ {
				m, err := root.LoadMast(bctx, bCfg(st, nil))
				if err != nil {
					break
				}
				// make part of the tree private first (an update and, sometimes, another new key)
				if n%2 == 0 {
					u := ks[(k+n+len(ks))%len(ks)]
					if err := m.Insert(bctx, u, model[u]+10); err != nil {
						break
					}
				}
				if n%3 == 0 {
					if err := m.Insert(bctx, 50+k, 1); err != nil {
						break
					}
				}
				sizeBefore := m.Size()
				st.reset()
				st.failLoad = 1 + (n-1)/2
				var ierr error
				p := bSafely(func() string { ierr = m.Insert(bctx, k, 1); return "" })
				st.reset()
				if p != "" || ierr == nil {
					continue
				}
				if m.Size() != sizeBefore {
					continue
				}
				icases++
				r2, err := m.MakeRoot(bctx)
				if err != nil {
					continue
				}
				if msg := bWalkShape(r2, st, nil); msg != "" {
					bViolation(t, "C09", "shape-after-failed-insert", "seed=%d bf=%d nf=%s contents %s\nInsert(%d,1) failed (%d-th store Load failing: %v); the version persisted afterwards (%s) is malformed: %s", seed, bf, nf, bModelString(model), k, 1+(n-1)/2, ierr, bRootString(r2), msg)
				}
			}
		}
	}
	bStat("C09.failed_insert_cases", icases)
}

func TestBounded_C05(t *testing.T) {
	total := 0
	for _, bf := range []uint{2, 3} {
		for _, nf := range bFormats {
			total += bExplore(t, bf, nf, 0, bDepth(), func(m *Mast, model map[int]int, hist []bOp, st *bStore) {
				for variant := 0; variant < 2; variant++ {
					var cache NodeCache
					if variant == 1 {
						cache = NewNodeCache(100)
					}
					c, err := m.Clone(bctx)
					if err != nil {
						return
					}
					c.nodeCache = cache
					m2, root, err := bReload(&c, st, cache, variant == 1)
					if err != nil {
						bViolation(t, "C05", "reload-error", "bf=%d nf=%s history: %s\n%v", bf, nf, bHist(hist), err)
						return
					}
					if m2.Size() != uint64(len(model)) || m2.Height() != c.Height() || m2.BranchFactor() != bf || m2.nodeFormat != nf || root.NodeFormat != string(nf) {
						bViolation(t, "C05", "reload-meta", "bf=%d nf=%s history: %s\nreloaded size/height/bf/format = %d/%d/%d/%s, want %d/%d/%d/%s", bf, nf, bHist(hist), m2.Size(), m2.Height(), m2.BranchFactor(), m2.nodeFormat, len(model), c.Height(), bf, nf)
					}
					if msg := bCompare(m2, model, bUniv); msg != "" {
						bViolation(t, "C05", "reload-contents", "bf=%d nf=%s cache=%v history: %s\nafter persist+load: %s", bf, nf, cache != nil, bHist(hist), msg)
						return
					}
					// the reloaded tree can be modified and persisted again
					model2 := bCopyModel(model)
					if msg := bSafely(func() string { return bApply(m2, model2, bOp{false, 2, 1}) }); msg != "" {
						bViolation(t, "C05", "reloaded-not-usable", "bf=%d nf=%s history: %s\non the reloaded tree: %s", bf, nf, bHist(hist), msg)
						return
					}
					m3, _, err := bReload(m2, st, cache, false)
					if err != nil {
						bViolation(t, "C05", "reloaded-not-usable", "bf=%d nf=%s history: %s\nsecond persist+load failed: %v", bf, nf, bHist(hist), err)
						return
					}
					if msg := bCompare(m3, model2, bUniv); msg != "" {
						bViolation(t, "C05", "reload-contents", "bf=%d nf=%s history: %s + Insert(2,1)\nafter second persist+load: %s", bf, nf, bHist(hist), msg)
					}
				}
			})
		}
	}
	bStat("C05.exhaustive_states", total)
	// other key / value types whose encoding round-trips
	bTypedRoundTrip(t)
}

func bTypedRoundTrip(t *testing.T) {
	type tc struct {
		name string
		cfg  func(st Persist) *RemoteConfig
		key  func(i int) interface{}
		val  func(i int) interface{}
	}
	cases := []tc{
		{"string/string", func(st Persist) *RemoteConfig {
			return &RemoteConfig{KeysLike: "", ValuesLike: "", StoreImmutablePartsWith: st}
		}, func(i int) interface{} { return fmt.Sprintf("key-%03d", i*7%50) }, func(i int) interface{} { return fmt.Sprintf("v%d", i) }},
		{"uint64/string", func(st Persist) *RemoteConfig {
			return &RemoteConfig{KeysLike: uint64(0), ValuesLike: "", StoreImmutablePartsWith: st}
		}, func(i int) interface{} { return uint64(i * 3) }, func(i int) interface{} { return fmt.Sprintf("v%d", i) }},
		{"int/map-values", func(st Persist) *RemoteConfig {
			return &RemoteConfig{KeysLike: int(0), ValuesLike: map[string]int{}, StoreImmutablePartsWith: st}
		}, func(i int) interface{} { return i * 5 }, func(i int) interface{} { return map[string]int{fmt.Sprintf("f%d", i%7): i} }},
		{"int/slice-values", func(st Persist) *RemoteConfig {
			return &RemoteConfig{KeysLike: int(0), ValuesLike: []int{}, StoreImmutablePartsWith: st}
		}, func(i int) interface{} { return i*3 - 20 }, func(i int) interface{} { return []int{i, i * 10, i * 100}[:1+i%3] }},
		{"string/struct-values", func(st Persist) *RemoteConfig {
			return &RemoteConfig{KeysLike: "", ValuesLike: bOptStruct{}, StoreImmutablePartsWith: st}
		}, func(i int) interface{} { return fmt.Sprintf("s%02d", i) }, func(i int) interface{} {
			if i%2 == 0 {
				return bOptStruct{A: i + 1}
			}
			return bOptStruct{B: fmt.Sprintf("b%d", i), C: []int{i}}
		}},
	}
	for _, c := range cases {
		for _, nf := range bFormats {
			for _, bf := range []uint{2, 4, 16} {
				st := newBStore("mem://typed")
				m, err := NewRoot(&CreateRemoteOptions{BranchFactor: bf, NodeFormat: nf}).LoadMast(bctx, c.cfg(st))
				if err != nil {
					bViolation(t, "C05", "typed-new", "%s bf=%d nf=%s: %v", c.name, bf, nf, err)
					continue
				}
				want := map[string]string{}
				for i := 0; i < 40; i++ {
					k, v := c.key(i), c.val(i)
					if err := m.Insert(bctx, k, v); err != nil {
						bViolation(t, "C01", "typed-insert", "%s bf=%d nf=%s Insert(%v): %v", c.name, bf, nf, k, err)
					}
					want[fmt.Sprint(k)] = fmt.Sprint(v)
				}
				root, err := m.MakeRoot(bctx)
				if err != nil {
					bViolation(t, "C03", "makeroot-error", "%s bf=%d nf=%s MakeRoot: %v", c.name, bf, nf, err)
					continue
				}
				m2, err := root.LoadMast(bctx, c.cfg(st))
				if err != nil {
					bViolation(t, "C05", "reload-error", "%s bf=%d nf=%s LoadMast: %v", c.name, bf, nf, err)
					continue
				}
				got := map[string]string{}
				n := 0
				err = m2.Iter(bctx, func(k, v interface{}) error {
					got[fmt.Sprint(k)] = fmt.Sprint(v)
					n++
					return nil
				})
				if err != nil || n != len(want) || fmt.Sprint(got) != fmt.Sprint(want) || m2.Size() != uint64(len(want)) {
					bViolation(t, "C05", "typed-contents", "%s bf=%d nf=%s: reloaded tree has %d entries %v (err %v, size %d), want %d entries %v", c.name, bf, nf, n, got, err, m2.Size(), len(want), want)
				}
			}
		}
	}
}

// bOptStruct: a value type whose JSON form omits zero fields (decoding onto a used value would
// keep the previous entry's fields)
type bOptStruct struct {
	A int    `json:",omitempty"`
	B string `json:",omitempty"`
	C []int  `json:",omitempty"`
}

type bKeyStruct struct {
	A int
	B string
}

// bSortByJSON orders keys by the bytes of their JSON encoding (computed here, independently of the
// library), the published order of key types that have no native comparison.
func bSortByJSON(keys []interface{}) []interface{} {
	enc := func(k interface{}) string {
		b, _ := json.Marshal(k)
		return string(b)
	}
	out := append([]interface{}(nil), keys...)
	sort.Slice(out, func(i, j int) bool { return enc(out[i]) < enc(out[j]) })
	return out
}
