package mast

import (
	"fmt"
	"sync"
	"testing"
)

// C11: independent trees sharing a store and a node cache, used from different goroutines.
// The runner adds -race for this test; a report of the race detector is a violation.
// bPublishCache checks every node at the moment it becomes visible to other trees: it must already
// be marked shared and clean, or a tree that finds it there would write into it in place.
type bPublishCache struct {
	NodeCache
	mu  sync.Mutex
	bad []string
}

func (c *bPublishCache) Add(key, value interface{}) {
	if n, ok := value.(*mastNode); ok && (!n.shared || n.dirty) {
		c.mu.Lock()
		c.bad = append(c.bad, fmt.Sprintf("%v (shared=%v dirty=%v, %d keys, %d links)", key, n.shared, n.dirty, len(n.Key), len(n.Link)))
		c.mu.Unlock()
	}
	c.NodeCache.Add(key, value)
}

func bPublishOrder(t *testing.T) {
	for _, nf := range bFormats {
		for _, bf := range []uint{2, 4, 16} {
			st := newBStore("mem://publish")
			model := map[int]int{}
			for i := 0; i < 60; i++ {
				model[i*3] = i % 3
			}
			w := &bPublishCache{NodeCache: NewNodeCache(1000)}
			m, err := bBuild(bf, nf, st, model, 0, false)
			if err != nil {
				continue
			}
			m.nodeCache = w
			root, err := m.MakeRoot(bctx)
			if err != nil {
				continue
			}
			if len(w.bad) > 0 {
				bViolation(t, "C11", "published-unmarked-flush", "bf=%d nf=%s: persisting put %d nodes into the shared cache before marking them shared and clean, e.g. %s", bf, nf, len(w.bad), w.bad[0])
			}
			cold := &bPublishCache{NodeCache: NewNodeCache(1000)}
			m2, err := root.LoadMast(bctx, bCfg(st, cold))
			if err != nil {
				continue
			}
			if msg := bCompare(m2, model, 181); msg != "" {
				bViolation(t, "C11", "cold-cache-contents", "bf=%d nf=%s: %s", bf, nf, msg)
			}
			if len(cold.bad) > 0 {
				bViolation(t, "C11", "published-unmarked-load", "bf=%d nf=%s: loading put %d nodes into the shared cache before marking them shared and clean, e.g. %s", bf, nf, len(cold.bad), cold.bad[0])
			}
		}
	}
}

func TestBounded_C11(t *testing.T) {
	bPublishOrder(t)
	rounds := 30
	steps := 120
	if bTier() == "thorough" {
		rounds, steps = bScale(120), 200
	}
	univ := 48
	for round := 1; round <= rounds; round++ {
		r := &bRand{uint64(round)*0x94D049BB133111EB + 31}
		bf := uint(2 + r.intn(4))
		nf := bFormats[r.intn(2)]
		st := newBStore("mem://conc")
		cache := NewNodeCache(64)
		model := map[int]int{}
		for i, n := 0, 10+r.intn(30); i < n; i++ {
			model[r.intn(univ)] = r.intn(3)
		}
		base, err := bBuild(bf, nf, st, model, 0, false)
		if err != nil {
			continue
		}
		base.nodeCache = cache
		root, err := base.MakeRoot(bctx)
		if err != nil {
			continue
		}
		model2 := bCopyModel(model)
		model2[univ+1] = 1
		other, _ := bBuild(bf, nf, st, model2, 1, false)
		other.nodeCache = cache
		root2, err := other.MakeRoot(bctx)
		if err != nil {
			continue
		}
		const workers = 6
		trees := make([]*Mast, workers)
		models := make([]map[int]int, workers)
		for w := 0; w < workers; w++ {
			switch w % 3 {
			case 0: // a clone of the base tree
				c, err := base.Clone(bctx)
				if err != nil {
					continue
				}
				trees[w], models[w] = &c, bCopyModel(model)
			case 1: // loaded from the same root, same cache
				m, err := root.LoadMast(bctx, bCfg(st, cache))
				if err != nil {
					continue
				}
				trees[w], models[w] = m, bCopyModel(model)
			case 2: // loaded from another root, same cache
				m, err := root2.LoadMast(bctx, bCfg(st, cache))
				if err != nil {
					continue
				}
				trees[w], models[w] = m, bCopyModel(model2)
			}
		}
		var wg sync.WaitGroup
		msgs := make([]string, workers)
		for w := 0; w < workers; w++ {
			if trees[w] == nil {
				continue
			}
			wg.Add(1)
			go func(w int) {
				defer wg.Done()
				rr := &bRand{uint64(round*100+w)*0xBF58476D1CE4E5B9 + 1}
				m, md := trees[w], models[w]
				var hist []bOp
				msgs[w] = bSafely(func() string {
					for i := 0; i < steps; i++ {
						o := bOp{Del: rr.intn(3) == 0, K: rr.intn(univ), V: rr.intn(3)}
						if o.Del {
							if ks := bModelKeys(md); len(ks) > 0 {
								o.K = ks[rr.intn(len(ks))]
								o.V = md[o.K]
							}
						}
						hist = append(hist, o)
						if msg := bApply(m, md, o); msg != "" {
							return fmt.Sprintf("history %s\n%s", bHist(hist), msg)
						}
						switch rr.intn(10) {
						case 0:
							if _, err := m.MakeRoot(bctx); err != nil {
								return fmt.Sprintf("history %s\nMakeRoot: %v", bHist(hist), err)
							}
						case 1:
							var x int
							m.Get(bctx, rr.intn(univ), &x)
						case 2:
							m.Iter(bctx, func(k, v interface{}) error { return nil })
						}
					}
					if msg := bCompare(m, md, univ+2); msg != "" {
						return fmt.Sprintf("history %s\n%s", bHist(hist), msg)
					}
					return ""
				})
			}(w)
		}
		wg.Wait()
		for w, msg := range msgs {
			if msg != "" {
				bViolation(t, "C11", "concurrent-tree-wrong", "round=%d bf=%d nf=%s worker %d (kind %d: 0 clone, 1 same root, 2 other root; %d trees run concurrently on one store and cache)\n%s", round, bf, nf, w, w%3, workers, msg)
			}
		}
		// the source versions are untouched
		for _, rm := range []struct {
			r *Root
			m map[int]int
		}{{root, model}, {root2, model2}} {
			if lm, err := rm.r.LoadMast(bctx, bCfg(st, cache)); err != nil {
				bViolation(t, "C02", "snapshot-unloadable", "round=%d: root %s no longer loads: %v", round, bRootString(rm.r), err)
			} else if msg := bCompare(lm, rm.m, univ+2); msg != "" {
				bViolation(t, "C02", "snapshot-changed", "round=%d: version %s changed while other trees were used concurrently: %s", round, bRootString(rm.r), msg)
			}
		}
	}
	bStat("C11.rounds", rounds)
}
