package mast

// Bounded stand-in harness (kit). These files live in /verif/bounded/src and are injected into
// package mast with `go test -overlay` (nothing is written to /repo). Everything here is a BOUNDED
// check: it explores every history up to a stated length over a small key universe, plus seeded
// random longer histories. It is reported under "bounded" in the evidence and never as proof.

import (
	"context"
	"encoding/base64"
	"encoding/json"
	"errors"
	"fmt"
	"os"
	"path/filepath"
	"sort"
	"strings"
	"sync"
	"testing"

	"github.com/minio/blake2b-simd"
)

var bctx = context.Background()

// ---------------------------------------------------------------------------------------------
// reporting

var bMu sync.Mutex
var bSeen = map[string]bool{}

// bViolation records one violation: a replay file with the failing history and one stdout line
// that the runner turns into a VIOLATION (or KNOWN-FINDING) line.
func bViolation(t *testing.T, prop, sig, format string, args ...interface{}) {
	t.Helper()
	bMu.Lock()
	defer bMu.Unlock()
	key := prop + "/" + sig
	if bSeen[key] {
		return // one report per signature is enough
	}
	bSeen[key] = true
	detail := fmt.Sprintf(format, args...)
	dir := os.Getenv("BOUNDED_REPLAY_DIR")
	path := "none"
	if dir != "" {
		os.MkdirAll(filepath.Join(dir, prop), 0755)
		path = filepath.Join(dir, prop, "bounded_"+strings.Map(func(r rune) rune {
			if r >= 'a' && r <= 'z' || r >= 'A' && r <= 'Z' || r >= '0' && r <= '9' || r == '-' || r == '_' {
				return r
			}
			return '_'
		}, sig)+".txt")
		os.WriteFile(path, []byte(fmt.Sprintf("bounded check, property %s, signature %s\nfailing input / history (replay by running test %s):\n%s\n", prop, sig, t.Name(), detail)), 0644)
	}
	fmt.Printf("BOUNDED-VIOLATION property=%s sig=%s replay=%s :: %s\n", prop, sig, path, firstLine(detail))
	t.Fail()
}

func firstLine(s string) string {
	if i := strings.IndexByte(s, '\n'); i >= 0 {
		return s[:i]
	}
	return s
}

func bTier() string {
	if os.Getenv("BOUNDED_TIER") == "thorough" {
		return "thorough"
	}
	return "quick"
}

func bStat(name string, n int) {
	fmt.Printf("BOUNDED-STAT %s=%d\n", name, n)
}

// ---------------------------------------------------------------------------------------------
// a counting, fault-injecting node store

type bStore struct {
	mu        sync.Mutex
	data      map[string][]byte
	loads     int
	stores    int
	loadLog   []string
	storeLog  []string
	failLoad  int // fail the n-th Load from now (1-based); 0: never
	failStore int // fail the n-th Store from now
	failAll   bool
	prefix    string
	rewrites  []string // names stored again with different bytes
}

var errInjected = errors.New("injected store fault")

func newBStore(prefix string) *bStore {
	return &bStore{data: map[string][]byte{}, prefix: prefix}
}

func (s *bStore) Store(ctx context.Context, name string, b []byte) error {
	s.mu.Lock()
	defer s.mu.Unlock()
	s.stores++
	s.storeLog = append(s.storeLog, name)
	if s.failAll {
		return errInjected
	}
	if s.failStore > 0 {
		s.failStore--
		if s.failStore == 0 {
			return errInjected
		}
	}
	if old, ok := s.data[name]; ok && string(old) != string(b) {
		s.rewrites = append(s.rewrites, name)
	}
	s.data[name] = append([]byte(nil), b...)
	return nil
}

func (s *bStore) Load(ctx context.Context, name string) ([]byte, error) {
	s.mu.Lock()
	defer s.mu.Unlock()
	s.loads++
	s.loadLog = append(s.loadLog, name)
	if s.failAll {
		return nil, errInjected
	}
	if s.failLoad > 0 {
		s.failLoad--
		if s.failLoad == 0 {
			return nil, errInjected
		}
	}
	b, ok := s.data[name]
	if !ok {
		return nil, fmt.Errorf("bStore: %q not found", name)
	}
	return append([]byte(nil), b...), nil
}

func (s *bStore) NodeURLPrefix() string { return s.prefix }

func (s *bStore) reset() {
	s.mu.Lock()
	defer s.mu.Unlock()
	s.loads, s.stores, s.loadLog, s.storeLog, s.failLoad, s.failStore, s.failAll = 0, 0, nil, nil, 0, 0, false
}

func (s *bStore) counts() (int, int) {
	s.mu.Lock()
	defer s.mu.Unlock()
	return s.loads, s.stores
}

func (s *bStore) distinctLoads() int {
	s.mu.Lock()
	defer s.mu.Unlock()
	m := map[string]bool{}
	for _, n := range s.loadLog {
		m[n] = true
	}
	return len(m)
}

// ---------------------------------------------------------------------------------------------
// trees, models, operations

type bOp struct {
	Del bool
	K   int
	V   int
}

func (o bOp) String() string {
	if o.Del {
		return fmt.Sprintf("Delete(%d,%d)", o.K, o.V)
	}
	return fmt.Sprintf("Insert(%d,%d)", o.K, o.V)
}

func bHist(h []bOp) string {
	var s []string
	for _, o := range h {
		s = append(s, o.String())
	}
	return strings.Join(s, " ")
}

func bCfg(st Persist, cache NodeCache) *RemoteConfig {
	return &RemoteConfig{KeysLike: int(0), ValuesLike: int(0), StoreImmutablePartsWith: st, NodeCache: cache}
}

func bNewTree(bf uint, nf nodeFormat, st Persist, cache NodeCache) (*Mast, error) {
	return NewRoot(&CreateRemoteOptions{BranchFactor: bf, NodeFormat: nf}).LoadMast(bctx, bCfg(st, cache))
}

func bCopyModel(m map[int]int) map[int]int {
	out := make(map[int]int, len(m))
	for k, v := range m {
		out[k] = v
	}
	return out
}

func bModelKeys(m map[int]int) []int {
	var ks []int
	for k := range m {
		ks = append(ks, k)
	}
	sort.Ints(ks)
	return ks
}

func bModelString(m map[int]int) string {
	var s []string
	for _, k := range bModelKeys(m) {
		s = append(s, fmt.Sprintf("%d:%d", k, m[k]))
	}
	return "{" + strings.Join(s, " ") + "}"
}

// bApply applies op to the tree and to the model and checks the call's own outcome against the
// sorted-map semantics. It returns a description of what is wrong, or "".
func bApply(m *Mast, model map[int]int, o bOp) string {
	if o.Del {
		cur, present := model[o.K]
		err := m.Delete(bctx, o.K, o.V)
		if present && cur == o.V {
			if err != nil {
				return fmt.Sprintf("%v of a present entry failed: %v", o, err)
			}
			delete(model, o.K)
		} else if err == nil {
			return fmt.Sprintf("%v succeeded although the entry is %s", o, map[bool]string{true: "present with another value", false: "absent"}[present])
		}
		return ""
	}
	if err := m.Insert(bctx, o.K, o.V); err != nil {
		return fmt.Sprintf("%v failed: %v", o, err)
	}
	model[o.K] = o.V
	return ""
}

// bEntries lists the tree's entries in iteration order.
func bEntries(m *Mast) ([][2]int, error) {
	var out [][2]int
	err := m.Iter(bctx, func(k, v interface{}) error {
		ki, ok1 := k.(int)
		vi, ok2 := v.(int)
		if !ok1 || !ok2 {
			return fmt.Errorf("entry of unexpected type %T/%T", k, v)
		}
		out = append(out, [2]int{ki, vi})
		return nil
	})
	return out, err
}

// bCompare checks lookups over the universe 0..univ-1 (plus -1 and univ), the size and a full
// iteration against the model. Returns "" when everything agrees.
func bCompare(m *Mast, model map[int]int, univ int) (res string) {
	defer func() {
		if r := recover(); r != nil {
			res = fmt.Sprintf("panic: %v", r)
		}
	}()
	if m.Size() != uint64(len(model)) {
		return fmt.Sprintf("Size()=%d, model has %d entries %s", m.Size(), len(model), bModelString(model))
	}
	for k := -1; k <= univ; k++ {
		var got int
		ok, err := m.Get(bctx, k, &got)
		if err != nil {
			return fmt.Sprintf("Get(%d) error: %v", k, err)
		}
		want, present := model[k]
		if ok != present {
			return fmt.Sprintf("Get(%d) found=%v, model present=%v %s", k, ok, present, bModelString(model))
		}
		if ok && got != want {
			return fmt.Sprintf("Get(%d)=%d, model has %d", k, got, want)
		}
	}
	es, err := bEntries(m)
	if err != nil {
		return fmt.Sprintf("Iter error: %v", err)
	}
	ks := bModelKeys(model)
	if len(es) != len(ks) {
		return fmt.Sprintf("Iter yields %d entries %v, model has %s", len(es), es, bModelString(model))
	}
	for i, k := range ks {
		if es[i][0] != k || es[i][1] != model[k] {
			return fmt.Sprintf("Iter yields %v, model has %s", es, bModelString(model))
		}
	}
	return ""
}

// bReload persists m and loads the returned root (through JSON when viaJSON) into a new tree.
func bReload(m *Mast, st Persist, cache NodeCache, viaJSON bool) (*Mast, *Root, error) {
	root, err := m.MakeRoot(bctx)
	if err != nil {
		return nil, nil, fmt.Errorf("MakeRoot: %w", err)
	}
	r2 := root
	if viaJSON {
		b, err := json.Marshal(root)
		if err != nil {
			return nil, nil, err
		}
		r2 = &Root{}
		if err := json.Unmarshal(b, r2); err != nil {
			return nil, nil, err
		}
	}
	m2, err := r2.LoadMast(bctx, bCfg(st, cache))
	if err != nil {
		return nil, root, fmt.Errorf("LoadMast: %w", err)
	}
	return m2, root, nil
}

func bRootString(r *Root) string {
	l := "<nil>"
	if r.Link != nil {
		l = *r.Link
	}
	return fmt.Sprintf("link=%s size=%d height=%d bf=%d nf=%s", l, r.Size, r.Height, r.BranchFactor, r.NodeFormat)
}

// bAllOps lists every insert and delete over keys 0..univ-1 and values 0..nv-1.
func bAllOps(univ, nv int) []bOp {
	var ops []bOp
	for k := 0; k < univ; k++ {
		for v := 0; v < nv; v++ {
			ops = append(ops, bOp{false, k, v})
		}
	}
	for k := 0; k < univ; k++ {
		for v := 0; v < nv; v++ {
			ops = append(ops, bOp{true, k, v})
		}
	}
	return ops
}

// small deterministic generator (so a failing history can be replayed from the seed)
type bRand struct{ s uint64 }

func (r *bRand) next() uint64 {
	r.s ^= r.s << 13
	r.s ^= r.s >> 7
	r.s ^= r.s << 17
	return r.s
}
func (r *bRand) intn(n int) int { return int(r.next() % uint64(n)) }

func bSafely(f func() string) (res string) {
	defer func() {
		if r := recover(); r != nil {
			res = fmt.Sprintf("panic: %v", r)
		}
	}()
	return f()
}

// nameOfBytes: the content address the format prescribes (unpadded URL-safe base64 of BLAKE2b-256)
func nameOfBytes(b []byte) string {
	h := blake2b.Sum256(b)
	return base64.RawURLEncoding.EncodeToString(h[:])
}

// bScale multiplies the thorough-tier seed counts by BOUNDED_SCALE (exploration beyond the
// registered tiers; ./check never sets it).
func bScale(n int) int {
	var m int
	if _, err := fmt.Sscanf(os.Getenv("BOUNDED_SCALE"), "%d", &m); err == nil && m > 1 {
		return n * m
	}
	return n
}

// bLRU: a plain strict LRU NodeCache (the interface allows any implementation; the library's own
// NewNodeCache is an ARC cache, which evicts differently)
type bLRU struct {
	mu    sync.Mutex
	cap   int
	tick  int
	items map[interface{}]*bLRUEntry
}

type bLRUEntry struct {
	v    interface{}
	used int
}

func newBLRU(capacity int) *bLRU { return &bLRU{cap: capacity, items: map[interface{}]*bLRUEntry{}} }

func (c *bLRU) Add(key, value interface{}) {
	c.mu.Lock()
	defer c.mu.Unlock()
	c.tick++
	if e, ok := c.items[key]; ok {
		e.v, e.used = value, c.tick
		return
	}
	c.items[key] = &bLRUEntry{value, c.tick}
	for len(c.items) > c.cap {
		var oldest interface{}
		min := c.tick + 1
		for k, e := range c.items {
			if e.used < min {
				min, oldest = e.used, k
			}
		}
		delete(c.items, oldest)
	}
}

func (c *bLRU) Contains(key interface{}) bool {
	c.mu.Lock()
	defer c.mu.Unlock()
	_, ok := c.items[key]
	return ok
}

func (c *bLRU) Get(key interface{}) (interface{}, bool) {
	c.mu.Lock()
	defer c.mu.Unlock()
	e, ok := c.items[key]
	if !ok {
		return nil, false
	}
	c.tick++
	e.used = c.tick
	return e.v, true
}
