package mast

import (
	"fmt"
	"testing"
)

// C13: persisting is incremental, writes no garbage, clean means unchanged.
// C16: point operations read only the search path.

func TestBounded_C13(t *testing.T) {
	cases := 0
	seeds := 40
	if bTier() == "thorough" {
		seeds = bScale(400)
	}
	univ := 64
	for seed := 1; seed <= seeds; seed++ {
		r := &bRand{uint64(seed)*0xC2B2AE3D27D4EB4F + 17}
		bf := uint(2 + r.intn(4))
		nf := bFormats[r.intn(2)]
		st := newBStore("mem://incr")
		var cache NodeCache
		if r.intn(2) == 0 {
			cache = NewNodeCache(512)
		}
		model := map[int]int{}
		for i, n := 0, r.intn(48); i < n; i++ {
			model[r.intn(univ)] = r.intn(3)
		}
		cfg := fmt.Sprintf("seed=%d bf=%d nf=%s cache=%v contents %s", seed, bf, nf, cache != nil, bModelString(model))
		m, err := bNewTree(bf, nf, st, cache)
		if err != nil {
			continue
		}
		for _, k := range bModelKeys(model) {
			m.Insert(bctx, k, model[k])
		}
		if len(model) > 0 && !m.IsDirty() {
			bViolation(t, "C13", "clean-but-changed", "%s\na new tree with %d inserted entries reports IsDirty()=false", cfg, len(model))
		}
		root1, err := m.MakeRoot(bctx)
		if err != nil {
			bViolation(t, "C03", "makeroot-error", "%s\nMakeRoot: %v", cfg, err)
			continue
		}
		reach1, err := bReachRoot(root1, st)
		if err != nil {
			bViolation(t, "C03", "incomplete-root", "%s\n%v", cfg, err)
			continue
		}
		ranges1 := bRanges(root1, st)
		// every write of the first persist is a node of the version (no garbage)
		st.mu.Lock()
		for _, n := range st.storeLog {
			if !reach1[n] {
				bViolation(t, "C13", "garbage-write", "%s\nMakeRoot wrote node %s which is not reachable from the returned root %s", cfg, n, bRootString(root1))
			}
		}
		st.mu.Unlock()
		// (1) persisting again without a modification writes nothing and returns the same root
		for variant := 0; variant < 2; variant++ {
			tr := m
			if variant == 1 {
				tr, err = root1.LoadMast(bctx, bCfg(st, cache))
				if err != nil {
					break
				}
			}
			cases++
			if tr.IsDirty() {
				// allowed (clean => unchanged, not the converse), nothing to check
			}
			st.reset()
			root2, err := tr.MakeRoot(bctx)
			_, stores := st.counts()
			if err != nil {
				bViolation(t, "C03", "makeroot-error", "%s\nsecond MakeRoot: %v", cfg, err)
				continue
			}
			if stores != 0 || bRootString(root2) != bRootString(root1) {
				bViolation(t, "C13", "unmodified-rewrite", "%s\nMakeRoot on the unmodified %s tree wrote %d nodes and returned %s (version was %s)", cfg, map[int]string{0: "just persisted", 1: "re-loaded"}[variant], stores, bRootString(root2), bRootString(root1))
			}
		}
		// (2) one modified key on a re-loaded tree
		for step := 0; step < 6; step++ {
			tr, err := root1.LoadMast(bctx, bCfg(st, cache))
			if err != nil {
				break
			}
			model2 := bCopyModel(model)
			var o bOp
			switch step % 3 {
			case 0:
				o = bOp{false, r.intn(univ), 9} // insert or update
			case 1:
				if ks := bModelKeys(model); len(ks) > 0 {
					k := ks[r.intn(len(ks))]
					o = bOp{true, k, model[k]}
				} else {
					o = bOp{false, r.intn(univ), 9}
				}
			case 2:
				if ks := bModelKeys(model); len(ks) > 0 {
					k := ks[r.intn(len(ks))]
					o = bOp{false, k, model[k]} // no-op insert of the present entry
				} else {
					o = bOp{false, r.intn(univ), 9}
				}
			}
			noop := !o.Del && func() bool { v, ok := model[o.K]; return ok && v == o.V }()
			h0 := tr.Height()
			if msg := bApply(tr, model2, o); msg != "" {
				bViolation(t, "C01", "op-outcome", "%s\n%s", cfg, msg)
				continue
			}
			cases++
			if !noop && !tr.IsDirty() {
				bViolation(t, "C13", "clean-but-changed", "%s\nafter %v (a real change) the tree reports IsDirty()=false", cfg, o)
			}
			// a snapshot (clone) of the modified tree is no cleaner than the tree itself
			if c, err := tr.Clone(bctx); err == nil && !noop && !c.IsDirty() {
				bViolation(t, "C13", "clone-clean-but-changed", "%s\nafter %v (a real change) a Clone of the tree reports IsDirty()=false", cfg, o)
			}
			if !tr.IsDirty() {
				if msg := bCompare(tr, model, univ); msg != "" {
					bViolation(t, "C13", "clean-but-changed", "%s\nafter %v the tree reports clean but differs from the loaded version: %s", cfg, o, msg)
				}
			}
			st.reset()
			root2, err := tr.MakeRoot(bctx)
			if err != nil {
				bViolation(t, "C03", "makeroot-error", "%s\nMakeRoot after %v: %v", cfg, o, err)
				continue
			}
			st.mu.Lock()
			written := append([]string(nil), st.storeLog...)
			st.mu.Unlock()
			reach2, err := bReachRoot(root2, st)
			if err != nil {
				bViolation(t, "C03", "incomplete-root", "%s\nafter %v: %v", cfg, o, err)
				continue
			}
			if noop && (len(written) != 0 || bRootString(root2) != bRootString(root1)) {
				bViolation(t, "C13", "noop-rewrite", "%s\n%v re-inserts the present entry; MakeRoot wrote %d nodes and returned %s (loaded version %s)", cfg, o, len(written), bRootString(root2), bRootString(root1))
			}
			for _, n := range written {
				if !reach2[n] {
					bViolation(t, "C13", "garbage-write", "%s\nafter %v MakeRoot wrote node %s which is not reachable from the returned root", cfg, o, n)
				}
				if reach1[n] && tr.Height() == h0 {
					rg, ok := ranges1[n]
					if ok && !((rg[0] == nil || *rg[0] < o.K) && (rg[1] == nil || o.K < *rg[1])) {
						bViolation(t, "C13", "old-node-rewritten", "%s\nafter %v MakeRoot rewrote node %s of the loaded version although key %d is outside its range", cfg, o, n, o.K)
					}
				}
			}
			if tr.Height() == h0 && len(written) > 2*int(h0)+2 {
				bViolation(t, "C13", "too-many-writes", "%s\nafter %v (height stays %d) MakeRoot wrote %d nodes, bound 2*height+2=%d", cfg, o, h0, len(written), 2*int(h0)+2)
			}
		}
		// (3) an emptied tree is not clean with respect to a non-empty version
		if len(model) > 0 && len(model) <= 6 {
			tr, err := root1.LoadMast(bctx, bCfg(st, cache))
			if err == nil {
				for _, k := range bModelKeys(model) {
					tr.Delete(bctx, k, model[k])
				}
				cases++
				if !tr.IsDirty() {
					bViolation(t, "C13", "clean-but-emptied", "%s\nafter deleting every entry of the loaded version the tree reports IsDirty()=false", cfg)
				}
			}
		}
	}
	bStat("C13.cases", cases)
}

func TestBounded_C16(t *testing.T) {
	cases := 0
	seeds := 40
	if bTier() == "thorough" {
		seeds = bScale(400)
	}
	univ := 96
	for seed := 1; seed <= seeds; seed++ {
		r := &bRand{uint64(seed)*0x165667B19E3779F9 + 23}
		bf := uint(2 + r.intn(4))
		nf := bFormats[r.intn(2)]
		st := newBStore("mem://cost")
		model := map[int]int{}
		for i, n := 0, 8+r.intn(72); i < n; i++ {
			model[r.intn(univ)] = r.intn(3)
		}
		base, err := bBuild(bf, nf, st, model, r.intn(2), false)
		if err != nil {
			continue
		}
		root, err := base.MakeRoot(bctx)
		if err != nil {
			continue
		}
		cfg := fmt.Sprintf("seed=%d bf=%d nf=%s root %s contents %s", seed, bf, nf, bRootString(root), bModelString(model))
		h := int(root.Height)
		// opening reads at most the top node
		st.reset()
		m, err := root.LoadMast(bctx, bCfg(st, nil))
		if err != nil {
			continue
		}
		cases++
		if l, _ := st.counts(); l > 1 {
			bViolation(t, "C16", "open-reads", "%s\nLoadMast read %d nodes", cfg, l)
		}
		// cloning reads at most the top node
		st.reset()
		if _, err := m.Clone(bctx); err == nil {
			if l, _ := st.counts(); l > 1 {
				bViolation(t, "C16", "clone-reads", "%s\nClone read %d nodes", cfg, l)
			}
		}
		for i := 0; i < 12; i++ {
			k := r.intn(univ + 2)
			// lookup: at most height+1 nodes
			m, _ = root.LoadMast(bctx, bCfg(st, nil))
			st.reset()
			var x int
			if _, err := m.Get(bctx, k, &x); err == nil {
				cases++
				if l, _ := st.counts(); l > h+1 {
					bViolation(t, "C16", "get-reads", "%s\nGet(%d) read %d nodes, height+1=%d", cfg, k, l, h+1)
				}
			}
			// a range scan that the caller stops at its first entry reads the path to the start
			// key and at most one more path down to the first entry at or after it
			m, _ = root.LoadMast(bctx, bCfg(st, nil))
			st.reset()
			calls := 0
			if err := m.SeekIter(bctx, k, func(_, _ interface{}) error { calls++; return ErrIterDone }); err == nil {
				cases++
				if l, _ := st.counts(); l > 2*(h+1) || calls > 1 {
					bViolation(t, "C16", "seekiter-stop-reads", "%s\nSeekIter(%d) stopped by its callback at the first entry read %d nodes (2*(height+1)=%d) and made %d callback calls", cfg, k, l, 2*(h+1), calls)
				}
			}
			// the same through a cursor: Ceil, Get, one step
			m, _ = root.LoadMast(bctx, bCfg(st, nil))
			st.reset()
			if c, err := m.Cursor(bctx); err == nil {
				if err := c.Ceil(bctx, k); err == nil {
					if _, _, ok := c.Get(); ok {
						c.Forward(bctx)
					}
					cases++
					if l, _ := st.counts(); l > 3*(h+1) {
						bViolation(t, "C16", "cursor-reads", "%s\nCursor Ceil(%d), Get and one Forward read %d nodes, 3*(height+1)=%d", cfg, k, l, 3*(h+1))
					}
				}
			}
			// insert without a height change: at most 2*(height+1)
			m, _ = root.LoadMast(bctx, bCfg(st, nil))
			st.reset()
			if err := m.Insert(bctx, k, 5); err == nil && int(m.Height()) == h {
				cases++
				if l, _ := st.counts(); l > 2*(h+1) {
					bViolation(t, "C16", "insert-reads", "%s\nInsert(%d,5) (height unchanged) read %d nodes, 2*(height+1)=%d", cfg, k, l, 2*(h+1))
				}
			}
			// delete without a height change
			if v, ok := model[k]; ok {
				m, _ = root.LoadMast(bctx, bCfg(st, nil))
				st.reset()
				if err := m.Delete(bctx, k, v); err == nil && int(m.Height()) == h {
					cases++
					if l, _ := st.counts(); l > 2*(h+1) {
						bViolation(t, "C16", "delete-reads", "%s\nDelete(%d,%d) (height unchanged) read %d nodes, 2*(height+1)=%d", cfg, k, v, l, 2*(h+1))
					}
				}
			}
		}
	}
	// a tall tree: keys of a high layer split many levels below them
	for _, bf := range []uint{2, 4} {
		st := newBStore("mem://cost-tall")
		model := map[int]int{}
		n := 2100
		top := int(bf * bf * bf * bf * bf)
		for top*int(bf) <= n {
			top *= int(bf)
		}
		for k := 1; k <= n; k++ {
			// leave out the keys of layer >= 4 (inserted below), but keep the highest-layer ones
			// so that the height does not change when those are inserted
			if k%int(bf*bf*bf*bf) != 0 || k%top == 0 {
				model[k] = k % 5
			}
		}
		base, err := bBuild(bf, V115Binary, st, model, 0, false)
		if err != nil {
			continue
		}
		root, err := base.MakeRoot(bctx)
		if err != nil {
			continue
		}
		h := int(root.Height)
		step := int(bf * bf * bf * bf)
		for k := step; k <= n; k += step {
			if _, present := model[k]; present {
				continue
			}
			m, err := root.LoadMast(bctx, bCfg(st, nil))
			if err != nil {
				break
			}
			st.reset()
			if err := m.Insert(bctx, k, 1); err == nil && int(m.Height()) == h {
				cases++
				if l, _ := st.counts(); l > 2*(h+1) {
					bViolation(t, "C16", "insert-reads", "tall tree bf=%d (%d entries, height %d): Insert(%d,1) of a layer-%d key (height unchanged) read %d nodes, 2*(height+1)=%d", bf, len(model), h, k, intLayer(int64(k), bf), l, 2*(h+1))
				}
			}
			var x int
			m, _ = root.LoadMast(bctx, bCfg(st, nil))
			st.reset()
			if _, err := m.Get(bctx, k+1, &x); err == nil {
				cases++
				if l, _ := st.counts(); l > h+1 {
					bViolation(t, "C16", "get-reads", "tall tree bf=%d height %d: Get(%d) read %d nodes", bf, h, k+1, l)
				}
			}
		}
	}
	bStat("C16.cases", cases)
}

// bRanges gives, for every node of the version, the open key interval it is responsible for.
func bRanges(root *Root, st Persist) map[string][2]*int {
	out := map[string][2]*int{}
	if root.Link == nil {
		return out
	}
	m, err := root.LoadMast(bctx, bCfg(st, nil))
	if err != nil {
		return out
	}
	var walk func(link interface{}, lo, hi *int)
	walk = func(link interface{}, lo, hi *int) {
		name, ok := link.(string)
		if !ok {
			return
		}
		n, err := m.load(bctx, name)
		if err != nil {
			return
		}
		out[name] = [2]*int{lo, hi}
		for i, c := range n.Link {
			if c == nil {
				continue
			}
			clo, chi := lo, hi
			if i > 0 {
				v := n.Key[i-1].(int)
				clo = &v
			}
			if i < len(n.Key) {
				v := n.Key[i].(int)
				chi = &v
			}
			walk(c, clo, chi)
		}
	}
	walk(*root.Link, nil, nil)
	return out
}
