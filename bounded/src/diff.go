package mast

import (
	"errors"
	"fmt"
	"sort"
	"testing"
)

type bDiff struct {
	K        int
	Kind     string // add, remove, change
	Old, New interface{}
}

func (d bDiff) String() string { return fmt.Sprintf("%s(%d old=%v new=%v)", d.Kind, d.K, d.Old, d.New) }

func bModelDiff(oldM, newM map[int]int) []bDiff {
	keys := map[int]bool{}
	for k := range oldM {
		keys[k] = true
	}
	for k := range newM {
		keys[k] = true
	}
	var ks []int
	for k := range keys {
		ks = append(ks, k)
	}
	sort.Ints(ks)
	var out []bDiff
	for _, k := range ks {
		ov, inOld := oldM[k]
		nv, inNew := newM[k]
		switch {
		case inOld && inNew && ov != nv:
			out = append(out, bDiff{k, "change", ov, nv})
		case inOld && !inNew:
			out = append(out, bDiff{k, "remove", ov, nil})
		case !inOld && inNew:
			out = append(out, bDiff{k, "add", nil, nv})
		}
	}
	return out
}

func bDiffIter(newT, oldT *Mast, stopAfter int, failAt int) (out []bDiff, calls int, err error) {
	defer func() {
		if r := recover(); r != nil {
			err = fmt.Errorf("panic: %v", r)
		}
	}()
	err = newT.DiffIter(bctx, oldT, func(added, removed bool, key, addedValue, removedValue interface{}) (bool, error) {
		calls++
		if failAt > 0 && calls == failAt {
			return true, errInjected
		}
		if failAt < 0 && calls == -failAt {
			return false, errInjected // "stop" and "failed" at once: the failure must still surface
		}
		d := bDiff{K: key.(int)}
		switch {
		case added && !removed:
			d.Kind, d.New = "add", addedValue
		case removed && !added:
			d.Kind, d.Old = "remove", removedValue
		case !added && !removed:
			d.Kind, d.Old, d.New = "change", removedValue, addedValue
		default:
			d.Kind = "added-and-removed"
		}
		out = append(out, d)
		if stopAfter > 0 && calls == stopAfter {
			return false, nil
		}
		return true, nil
	})
	return
}

func bDiffCursor(newT, oldT *Mast) (out []bDiff, err error) {
	defer func() {
		if r := recover(); r != nil {
			err = fmt.Errorf("panic: %v", r)
		}
	}()
	dc, err := newT.StartDiff(bctx, oldT)
	if err != nil {
		return nil, err
	}
	for i := 0; i < 10000; i++ {
		d, err := dc.NextEntry(bctx)
		if err == ErrNoMoreDiffs {
			return out, nil
		}
		if err != nil {
			return out, err
		}
		b := bDiff{K: d.Key.(int), Old: d.OldValue, New: d.NewValue}
		switch d.Type {
		case DiffType_Add:
			b.Kind = "add"
		case DiffType_Remove:
			b.Kind = "remove"
		case DiffType_Change:
			b.Kind = "change"
		}
		out = append(out, b)
	}
	return out, errors.New("diff cursor does not terminate")
}

func bBuild(bf uint, nf nodeFormat, st *bStore, model map[int]int, order int, persist bool) (*Mast, error) {
	m, err := bNewTree(bf, nf, st, nil)
	if err != nil {
		return nil, err
	}
	ks := bModelKeys(model)
	if order == 1 {
		sort.Sort(sort.Reverse(sort.IntSlice(ks)))
	}
	for _, k := range ks {
		if err := m.Insert(bctx, k, model[k]); err != nil {
			return nil, err
		}
	}
	if persist {
		m2, _, err := bReload(m, st, nil, false)
		return m2, err
	}
	return m, nil
}

// bCheckDiff compares DiffIter and the cursor interface with the model diff for one pair.
func bCheckDiff(t *testing.T, desc string, newT, oldT *Mast, newM, oldM map[int]int) {
	want := bModelDiff(oldM, newM)
	got, _, err := bDiffIter(newT, oldT, 0, 0)
	if err != nil {
		bViolation(t, "C06", "diffiter-error", "%s\nold %s new %s\nDiffIter failed: %v", desc, bModelString(oldM), bModelString(newM), err)
		return
	}
	if fmt.Sprint(got) != fmt.Sprint(want) {
		bViolation(t, "C06", "diffiter-wrong", "%s\nold %s new %s\nDiffIter reported %v\nexpected          %v", desc, bModelString(oldM), bModelString(newM), got, want)
		return
	}
	cur, err := bDiffCursor(newT, oldT)
	if err != nil {
		bViolation(t, "C06", "diffcursor-error", "%s\nold %s new %s\ndiff cursor failed: %v", desc, bModelString(oldM), bModelString(newM), err)
		return
	}
	if fmt.Sprint(cur) != fmt.Sprint(want) {
		bViolation(t, "C06", "diffcursor-wrong", "%s\nold %s new %s\ncursor reported %v\nexpected        %v", desc, bModelString(oldM), bModelString(newM), cur, want)
	}
	if len(want) >= 2 {
		// stopping early: exactly n callbacks, no error
		g2, calls, err := bDiffIter(newT, oldT, 1, 0)
		if err != nil || calls != 1 || len(g2) != 1 || fmt.Sprint(g2[0]) != fmt.Sprint(want[0]) {
			bViolation(t, "C06", "early-stop", "%s\nold %s new %s\ncallback asked to stop after 1 entry: %d calls, err=%v, got %v", desc, bModelString(oldM), bModelString(newM), calls, err, g2)
		}
		_, calls, err = bDiffIter(newT, oldT, 0, 2)
		if err == nil || !errors.Is(err, errInjected) || calls != 2 {
			bViolation(t, "C06", "callback-error", "%s\nold %s new %s\ncallback failed at its 2nd call: DiffIter returned %v after %d calls", desc, bModelString(oldM), bModelString(newM), err, calls)
		}
		_, calls, err = bDiffIter(newT, oldT, 0, -2)
		if err == nil || !errors.Is(err, errInjected) || calls != 2 {
			bViolation(t, "C06", "callback-error-with-stop", "%s\nold %s new %s\ncallback returned (false, error) at its 2nd call: DiffIter returned %v after %d calls", desc, bModelString(oldM), bModelString(newM), err, calls)
		}
	}
}

func bAllModels(univ, nv int) []map[int]int {
	var out []map[int]int
	n := 1
	for i := 0; i < univ; i++ {
		n *= nv + 1
	}
	for code := 0; code < n; code++ {
		m := map[int]int{}
		c := code
		for k := 0; k < univ; k++ {
			d := c % (nv + 1)
			c /= nv + 1
			if d > 0 {
				m[k] = d - 1
			}
		}
		out = append(out, m)
	}
	return out
}

func TestBounded_C06(t *testing.T) {
	pairs := 0
	// exhaustive: all pairs of contents over keys {0,1,2,4} x values {0,1}
	keymap := []int{0, 1, 2, 4}
	models := bAllModels(4, 2)
	remap := func(m map[int]int) map[int]int {
		o := map[int]int{}
		for k, v := range m {
			o[keymap[k]] = v
		}
		return o
	}
	for _, bf := range []uint{2, 3} {
		for variant := 0; variant < 3; variant++ {
			nf := bFormats[variant%2]
			st := newBStore("mem://diff")
			trees := make([]*Mast, len(models))
			ms := make([]map[int]int, len(models))
			for i, m := range models {
				ms[i] = remap(m)
				tr, err := bBuild(bf, nf, st, ms[i], variant%2, variant >= 1)
				if err != nil {
					bViolation(t, "C01", "build", "bf=%d contents %s: %v", bf, bModelString(ms[i]), err)
					return
				}
				trees[i] = tr
			}
			step := 1
			if bTier() != "thorough" {
				step = 3 // every third "old" tree in the quick tier
			}
			for i := 0; i < len(models); i += step {
				for j := range models {
					pairs++
					bCheckDiff(t, fmt.Sprintf("bf=%d nf=%s variant=%d (0: in memory, 1-2: persisted and re-loaded)", bf, nf, variant), trees[j], trees[i], ms[j], ms[i])
				}
			}
		}
	}
	// emptied trees and different heights
	for _, bf := range []uint{2, 4} {
		st := newBStore("mem://diff2")
		big := map[int]int{}
		for k := 0; k < 40; k++ {
			big[k] = k % 3
		}
		bt, _ := bBuild(bf, V115Binary, st, big, 0, true)
		emptied, _ := bNewTree(bf, V115Binary, st, nil)
		emptied.Insert(bctx, 5, 1)
		emptied.Delete(bctx, 5, 1)
		fresh, _ := bNewTree(bf, V115Binary, st, nil)
		small, _ := bBuild(bf, V115Binary, st, map[int]int{7: 0, 8: 9}, 0, false)
		cases := []struct {
			n      string
			a, b   *Mast
			am, bm map[int]int
		}{
			{"big vs emptied", bt, emptied, big, map[int]int{}},
			{"emptied vs big", emptied, bt, map[int]int{}, big},
			{"fresh vs emptied", fresh, emptied, map[int]int{}, map[int]int{}},
			{"big vs small (different heights)", bt, small, big, map[int]int{7: 0, 8: 9}},
			{"small vs big (different heights)", small, bt, map[int]int{7: 0, 8: 9}, big},
			{"big vs itself", bt, bt, big, big},
		}
		for _, c := range cases {
			pairs++
			bCheckDiff(t, fmt.Sprintf("bf=%d %s", bf, c.n), c.a, c.b, c.am, c.bm)
		}
	}
	// seeded random related / unrelated pairs over keys 0..63
	seeds := 60
	if bTier() == "thorough" {
		seeds = bScale(600)
	}
	for seed := 1; seed <= seeds; seed++ {
		r := &bRand{uint64(seed)*0x9E3779B97F4A7C15 + 99}
		bf := uint(2 + r.intn(4))
		nf := bFormats[r.intn(2)]
		st := newBStore("mem://diff3")
		am := map[int]int{}
		for i, n := 0, r.intn(40); i < n; i++ {
			am[r.intn(64)] = r.intn(3)
		}
		a, err := bBuild(bf, nf, st, am, r.intn(2), r.intn(2) == 0)
		if err != nil {
			continue
		}
		var b *Mast
		bm := bCopyModel(am)
		if r.intn(3) == 0 {
			// unrelated tree
			bm = map[int]int{}
			for i, n := 0, r.intn(40); i < n; i++ {
				bm[r.intn(64)] = r.intn(3)
			}
			b, err = bBuild(bf, nf, st, bm, r.intn(2), r.intn(2) == 0)
			if err != nil {
				continue
			}
		} else {
			c, err := a.Clone(bctx)
			if err != nil {
				continue
			}
			b = &c
			for i, n := 0, 1+r.intn(6); i < n; i++ {
				o := bOp{Del: r.intn(2) == 0, K: r.intn(64), V: r.intn(3)}
				if o.Del {
					if ks := bModelKeys(bm); len(ks) > 0 {
						o.K = ks[r.intn(len(ks))]
						o.V = bm[o.K]
					}
				}
				bApply(b, bm, o)
			}
			if r.intn(2) == 0 {
				if b2, _, err := bReload(b, st, nil, false); err == nil {
					b = b2
				}
			}
		}
		pairs++
		bCheckDiff(t, fmt.Sprintf("seed=%d bf=%d nf=%s", seed, bf, nf), b, a, bm, am)
	}
	bStat("C06.pairs", pairs)
	// persisted versions under a store fault: the callback and the cursor interface fail alike
	// (the n-th Load failing makes both report an error; neither ends early as if complete)
	fcases := 0
	for seed := 1; seed <= seeds/4+3; seed++ {
		r := &bRand{uint64(seed)*0xD6E8FEB86659FD93 + 5}
		bf := uint(2 + r.intn(3))
		nf := bFormats[r.intn(2)]
		st := newBStore("mem://diff-faults")
		am, bm := map[int]int{}, map[int]int{}
		for i, n := 0, 10+r.intn(30); i < n; i++ {
			k := r.intn(64)
			am[k] = r.intn(3)
			if r.intn(3) != 0 {
				bm[k] = am[k] + r.intn(2)
			}
		}
		for i, n := 0, r.intn(8); i < n; i++ {
			bm[r.intn(64)] = 7
		}
		a, err := bBuild(bf, nf, st, am, 0, true)
		if err != nil {
			continue
		}
		b, err := bBuild(bf, nf, st, bm, 1, true)
		if err != nil {
			continue
		}
		ra, err1 := a.MakeRoot(bctx)
		rb, err2 := b.MakeRoot(bctx)
		if err1 != nil || err2 != nil {
			continue
		}
		want := bModelDiff(am, bm)
		for n := 1; n <= 24; n++ {
			open := func() (*Mast, *Mast, bool) {
				st.reset()
				x, e1 := ra.LoadMast(bctx, bCfg(st, nil))
				y, e2 := rb.LoadMast(bctx, bCfg(st, nil))
				return x, y, e1 == nil && e2 == nil
			}
			oldT, newT, ok := open()
			if !ok {
				break
			}
			st.reset()
			st.failLoad = n
			itOut, _, itErr := bDiffIter(newT, oldT, 0, 0)
			st.reset()
			oldT, newT, ok = open()
			if !ok {
				break
			}
			st.reset()
			st.failLoad = n
			curOut, curErr := bDiffCursor(newT, oldT)
			st.reset()
			if itErr == nil && curErr == nil {
				// the fault was not reached, or it hit a read whose failure is tolerated (the
				// already-notified lookahead of the node diff): both interfaces must then agree
				if fmt.Sprint(itOut) != fmt.Sprint(curOut) {
					bViolation(t, "C06", "fault-disagree", "seed=%d bf=%d nf=%s the %d-th store Load failing: both interfaces finish without error but report different differences: %v vs %v", seed, bf, nf, n, itOut, curOut)
				}
				continue
			}
			fcases++
			desc := fmt.Sprintf("seed=%d bf=%d nf=%s old %s\nnew %s\nthe %d-th store Load failing", seed, bf, nf, bModelString(am), bModelString(bm), n)
			if (itErr == nil) != (curErr == nil) {
				bViolation(t, "C06", "fault-disagree", "%s\nDiffIter: %d differences, err=%v; cursor: %d differences, err=%v (the full diff has %d)", desc, len(itOut), itErr, len(curOut), curErr, len(want))
			}
		}
	}
	bStat("C06.fault_cases", fcases)
}

// ---------------------------------------------------------------------------------------------
// node diff (C07) and diff cost (C15)

func bReach(m *Mast, link interface{}, into map[string]bool) error {
	name, ok := link.(string)
	if !ok {
		return fmt.Errorf("link %v (%T) is not a persisted name", link, link)
	}
	if into[name] {
		return nil
	}
	into[name] = true
	n, err := m.load(bctx, name)
	if err != nil {
		return err
	}
	for _, c := range n.Link {
		if c != nil {
			if err := bReach(m, c, into); err != nil {
				return err
			}
		}
	}
	return nil
}

func bReachRoot(root *Root, st Persist) (map[string]bool, error) {
	out := map[string]bool{}
	if root.Link == nil {
		return out, nil
	}
	m, err := root.LoadMast(bctx, bCfg(st, nil))
	if err != nil {
		return nil, err
	}
	return out, bReach(m, *root.Link, out)
}

func bCheckNodeDiff(t *testing.T, desc string, st *bStore, oldR, newR *Root, oldM, newM map[int]int) {
	reachOld, err1 := bReachRoot(oldR, st)
	reachNew, err2 := bReachRoot(newR, st)
	if err1 != nil || err2 != nil {
		bViolation(t, "C03", "unreachable-node", "%s: walking the persisted versions failed: %v %v", desc, err1, err2)
		return
	}
	oldT, err1 := oldR.LoadMast(bctx, bCfg(st, nil))
	newT, err2 := newR.LoadMast(bctx, bCfg(st, nil))
	if err1 != nil || err2 != nil {
		return
	}
	added, removed := map[string]int{}, map[string]int{}
	st.reset()
	err := func() (err error) {
		defer func() {
			if r := recover(); r != nil {
				err = fmt.Errorf("panic: %v", r)
			}
		}()
		return newT.DiffLinks(bctx, oldT, func(rem bool, link interface{}) (bool, error) {
			name, ok := link.(string)
			if !ok {
				// not a name (the in-memory placeholder of an empty version): the property speaks
				// about names; a real node reported this way shows up as added-missing below
				return true, nil
			}
			if rem {
				removed[name]++
			} else {
				added[name]++
			}
			return true, nil
		})
	}()
	distinct := st.distinctLoads()
	ctx := fmt.Sprintf("%s\nold %s = %s\nnew %s = %s", desc, bRootString(oldR), bModelString(oldM), bRootString(newR), bModelString(newM))
	if err != nil {
		bViolation(t, "C07", "difflinks-error", "%s\nDiffLinks failed: %v", ctx, err)
		return
	}
	for n := range reachNew {
		if !reachOld[n] && added[n] == 0 {
			bViolation(t, "C07", "added-missing", "%s\nnode %s is reached by the new version only and was not reported as added (added: %v)", ctx, n, added)
		}
	}
	for n := range reachOld {
		if !reachNew[n] && removed[n] == 0 {
			bViolation(t, "C07", "removed-missing", "%s\nnode %s is reached by the old version only and was not reported as removed (removed: %v)", ctx, n, removed)
		}
	}
	for n, c := range added {
		if c > 1 {
			bViolation(t, "C07", "added-twice", "%s\nnode %s reported as added %d times", ctx, n, c)
		}
		if !reachNew[n] {
			bViolation(t, "C07", "added-outside", "%s\nnode %s reported as added is not part of the new version", ctx, n)
		}
	}
	for n, c := range removed {
		if c > 1 {
			bViolation(t, "C07", "removed-twice", "%s\nnode %s reported as removed %d times", ctx, n, c)
		}
		if !reachOld[n] {
			bViolation(t, "C07", "removed-outside", "%s\nnode %s reported as removed is not part of the old version", ctx, n)
		}
	}
	// replica: old version's nodes plus the added ones make the new version loadable
	replica := newBStore("mem://replica")
	for n := range reachOld {
		replica.data[n] = st.data[n]
	}
	for n := range added {
		replica.data[n] = st.data[n]
	}
	if rt, err := newR.LoadMast(bctx, bCfg(replica, nil)); err != nil {
		bViolation(t, "C07", "replica-unloadable", "%s\nafter copying the added nodes to a replica of the old version, LoadMast fails: %v", ctx, err)
	} else if msg := bCompare(rt, newM, bMaxKey(newM)+1); msg != "" {
		bViolation(t, "C07", "replica-unloadable", "%s\nafter copying the added nodes to a replica of the old version: %s", ctx, msg)
	}
	// cost (C15): distinct nodes read <= 2*D+2, D = nodes in exactly one version; 0 for the same version
	d := 0
	for n := range reachNew {
		if !reachOld[n] {
			d++
		}
	}
	for n := range reachOld {
		if !reachNew[n] {
			d++
		}
	}
	same := (oldR.Link == nil && newR.Link == nil) || (oldR.Link != nil && newR.Link != nil && *oldR.Link == *newR.Link)
	if same && distinct != 0 {
		bViolation(t, "C15", "same-version-reads", "%s\nDiffLinks of a version against itself read %d nodes", ctx, distinct)
	}
	if distinct > 2*d+2 {
		bViolation(t, "C15", "difflinks-cost", "%s\nDiffLinks read %d distinct nodes, D=%d nodes differ (bound 2*D+2=%d)", ctx, distinct, d, 2*d+2)
	}
	// the same bound for the diff cursor
	oldT3, _ := oldR.LoadMast(bctx, bCfg(st, nil))
	newT3, _ := newR.LoadMast(bctx, bCfg(st, nil))
	st.reset()
	if _, err := bDiffCursor(newT3, oldT3); err == nil {
		dl := st.distinctLoads()
		if same && dl != 0 {
			bViolation(t, "C15", "same-version-reads", "%s\nthe diff cursor (StartDiff/NextEntry) of a version against itself read %d nodes", ctx, dl)
		}
		if dl > 2*d+2 {
			bViolation(t, "C15", "diffcursor-cost", "%s\nthe diff cursor read %d distinct nodes, D=%d nodes differ (bound 2*D+2=%d)", ctx, dl, d, 2*d+2)
		}
	}
	// the same bound for the entry diff
	oldT2, _ := oldR.LoadMast(bctx, bCfg(st, nil))
	newT2, _ := newR.LoadMast(bctx, bCfg(st, nil))
	st.reset()
	if _, _, err := bDiffIter(newT2, oldT2, 0, 0); err == nil {
		dl := st.distinctLoads()
		if same && dl != 0 {
			bViolation(t, "C15", "same-version-reads", "%s\nDiffIter of a version against itself read %d nodes", ctx, dl)
		}
		if dl > 2*d+2 {
			bViolation(t, "C15", "diffiter-cost", "%s\nDiffIter read %d distinct nodes, D=%d nodes differ (bound 2*D+2=%d)", ctx, dl, d, 2*d+2)
		}
	}
}

func bNodeDiffCases(t *testing.T) int {
	pairs := 0
	seeds := 80
	if bTier() == "thorough" {
		seeds = bScale(800)
	}
	for seed := 1; seed <= seeds; seed++ {
		r := &bRand{uint64(seed)*0xD1B54A32D192ED03 + 5}
		bf := uint(2 + r.intn(4))
		nf := bFormats[r.intn(2)]
		st := newBStore("mem://nodediff")
		am := map[int]int{}
		size := r.intn(48)
		if seed%5 == 0 {
			size = 0
		}
		for i := 0; i < size; i++ {
			am[r.intn(64)] = r.intn(3)
		}
		a, err := bBuild(bf, nf, st, am, r.intn(2), false)
		if err != nil {
			continue
		}
		ra, err := a.MakeRoot(bctx)
		if err != nil {
			bViolation(t, "C03", "makeroot-error", "seed=%d: MakeRoot: %v", seed, err)
			continue
		}
		bm := bCopyModel(am)
		var b *Mast
		switch r.intn(4) {
		case 0: // unrelated
			bm = map[int]int{}
			for i, n := 0, r.intn(48); i < n; i++ {
				bm[r.intn(64)] = r.intn(3)
			}
			b, err = bBuild(bf, nf, st, bm, r.intn(2), false)
			if err != nil {
				continue
			}
		case 1: // same version
			b, err = ra.LoadMast(bctx, bCfg(st, nil))
			if err != nil {
				continue
			}
		default: // a few changes on a re-loaded tree
			b, err = ra.LoadMast(bctx, bCfg(st, nil))
			if err != nil {
				continue
			}
			for i, n := 0, 1+r.intn(5); i < n; i++ {
				o := bOp{Del: r.intn(2) == 0, K: r.intn(64), V: r.intn(3)}
				if o.Del {
					if ks := bModelKeys(bm); len(ks) > 0 {
						o.K = ks[r.intn(len(ks))]
						o.V = bm[o.K]
					}
				}
				bApply(b, bm, o)
			}
		}
		rb, err := b.MakeRoot(bctx)
		if err != nil {
			bViolation(t, "C03", "makeroot-error", "seed=%d: MakeRoot: %v", seed, err)
			continue
		}
		pairs++
		bCheckNodeDiff(t, fmt.Sprintf("seed=%d bf=%d nf=%s", seed, bf, nf), st, ra, rb, am, bm)
		pairs++
		bCheckNodeDiff(t, fmt.Sprintf("seed=%d bf=%d nf=%s (reversed)", seed, bf, nf), st, rb, ra, bm, am)
	}
	return pairs
}

func TestBounded_C07(t *testing.T) {
	bStat("C07.version_pairs", bNodeDiffCases(t))
	// a store Load that fails once during the node diff: the diff either fails, or what it
	// reports is still complete (a silently shortened list would leave the replica incomplete)
	faults := 0
	seeds := 6
	if bTier() == "thorough" {
		seeds = bScale(40)
	}
	for seed := 1; seed <= seeds; seed++ {
		r := &bRand{uint64(seed)*0xF1357AEA2E62A9C5 + 9}
		bf := uint(2 + r.intn(4))
		st := newBStore("mem://nodediff-faults")
		am := map[int]int{}
		for i, n := 0, 10+r.intn(40); i < n; i++ {
			am[r.intn(64)] = r.intn(3)
		}
		a, err := bBuild(bf, bFormats[r.intn(2)], st, am, 0, false)
		if err != nil {
			continue
		}
		ra, err := a.MakeRoot(bctx)
		if err != nil {
			continue
		}
		b, err := ra.LoadMast(bctx, bCfg(st, nil))
		if err != nil {
			continue
		}
		bm := bCopyModel(am)
		for i, n := 0, 1+r.intn(5); i < n; i++ {
			bApply(b, bm, bOp{false, r.intn(64), 7 + i})
		}
		rb, err := b.MakeRoot(bctx)
		if err != nil {
			continue
		}
		reachOld, _ := bReachRoot(ra, st)
		reachNew, _ := bReachRoot(rb, st)
		for n := 1; n <= 24; n++ {
			oldT, err1 := ra.LoadMast(bctx, bCfg(st, nil))
			newT, err2 := rb.LoadMast(bctx, bCfg(st, nil))
			if err1 != nil || err2 != nil {
				break
			}
			added, removed := map[string]bool{}, map[string]bool{}
			addedN, removedN := map[string]int{}, map[string]int{}
			st.reset()
			st.failLoad = n
			derr := func() (err error) {
				defer func() {
					if rec := recover(); rec != nil {
						err = fmt.Errorf("panic: %v", rec)
					}
				}()
				return newT.DiffLinks(bctx, oldT, func(rem bool, link interface{}) (bool, error) {
					if name, ok := link.(string); ok {
						if rem {
							removed[name] = true
							removedN[name]++
						} else {
							added[name] = true
							addedN[name]++
						}
					}
					return true, nil
				})
			}()
			st.mu.Lock()
			hit := st.failLoad == 0
			st.mu.Unlock()
			st.reset()
			if !hit {
				break // the diff needs fewer than n loads
			}
			faults++
			if derr != nil {
				continue // the fault was reported: fine
			}
			for name, c := range addedN {
				if c > 1 || !reachNew[name] || reachOld[name] {
					bViolation(t, "C07", "added-wrong-after-fault", "seed=%d bf=%d: the %d-th store Load failed once during DiffLinks; DiffLinks returned no error and reported %s as added %d times (in new version: %v, in old version: %v)", seed, bf, n, name, c, reachNew[name], reachOld[name])
				}
			}
			for name, c := range removedN {
				if c > 1 || !reachOld[name] || reachNew[name] {
					bViolation(t, "C07", "removed-wrong-after-fault", "seed=%d bf=%d: the %d-th store Load failed once during DiffLinks; DiffLinks returned no error and reported %s as removed %d times (in old version: %v, in new version: %v)", seed, bf, n, name, c, reachOld[name], reachNew[name])
				}
			}
			for name := range reachNew {
				if !reachOld[name] && !added[name] {
					bViolation(t, "C07", "added-missing-after-fault", "seed=%d bf=%d: the %d-th store Load failed once during DiffLinks; DiffLinks returned no error but did not report node %s (reached only by the new version) as added", seed, bf, n, name)
				}
			}
			for name := range reachOld {
				if !reachNew[name] && !removed[name] {
					bViolation(t, "C07", "removed-missing-after-fault", "seed=%d bf=%d: the %d-th store Load failed once during DiffLinks; DiffLinks returned no error but did not report node %s (reached only by the old version) as removed", seed, bf, n, name)
				}
			}
		}
	}
	bStat("C07.fault_cases", faults)
}

func TestBounded_C15(t *testing.T) {
	bStat("C15.version_pairs", bNodeDiffCases(t))
	// tall trees (small branch factor, thousands of keys): one change deep in the tree
	tall := 0
	for _, bf := range []uint{2, 3} {
		st := newBStore("mem://tall")
		model := map[int]int{}
		n := 3000
		for k := 1; k <= n; k++ {
			model[k] = k % 7
		}
		a, err := bBuild(bf, V115Binary, st, model, 0, false)
		if err != nil {
			continue
		}
		ra, err := a.MakeRoot(bctx)
		if err != nil {
			continue
		}
		for _, k := range []int{n / 2, n - 3, 2*n/3 + 1, 5} {
			b, err := ra.LoadMast(bctx, bCfg(st, nil))
			if err != nil {
				continue
			}
			m2 := bCopyModel(model)
			if msg := bApply(b, m2, bOp{false, k, 99}); msg != "" {
				continue
			}
			rb, err := b.MakeRoot(bctx)
			if err != nil {
				continue
			}
			tall++
			bCheckNodeDiff(t, fmt.Sprintf("tall tree bf=%d n=%d height=%d, value of key %d changed", bf, n, ra.Height, k), st, ra, rb, model, m2)
		}
	}
	bStat("C15.tall_tree_pairs", tall)
	// versions written and read through one small shared node cache (eviction pressure): the
	// diff must still recognise common subtrees by name and skip them
	cached := 0
	for _, bf := range []uint{4, 16} {
		st := newBStore("mem://smallcache")
		var cache NodeCache = newBLRU(64)
		if bf == 4 {
			cache = NewNodeCache(64)
		}
		cfg := bCfg(st, cache)
		m, err := NewRoot(&CreateRemoteOptions{BranchFactor: bf}).LoadMast(bctx, cfg)
		if err != nil {
			continue
		}
		n := 20000
		model := map[int]int{}
		for k := 1; k <= n; k++ {
			m.Insert(bctx, k, k%7)
			model[k] = k % 7
		}
		r0, err := m.MakeRoot(bctx)
		if err != nil {
			continue
		}
		roots := []*Root{r0}
		m0 := bCopyModel(model)
		for i := 0; i < 25; i++ {
			m, err = roots[len(roots)-1].LoadMast(bctx, cfg)
			if err != nil {
				break
			}
			k := 37 + i*701
			m.Insert(bctx, k, 100+i)
			model[k] = 100 + i
			r, err := m.MakeRoot(bctx)
			if err != nil {
				break
			}
			roots = append(roots, r)
		}
		first, latest := roots[0], roots[len(roots)-1]
		ra, _ := bReachRoot(first, st)
		rb, _ := bReachRoot(latest, st)
		d := 0
		for x := range ra {
			if !rb[x] {
				d++
			}
		}
		for x := range rb {
			if !ra[x] {
				d++
			}
		}
		for dir, pair := range [][2]*Root{{first, latest}, {latest, first}} {
			oldT, err1 := pair[0].LoadMast(bctx, cfg)
			newT, err2 := pair[1].LoadMast(bctx, cfg)
			if err1 != nil || err2 != nil {
				continue
			}
			st.reset()
			got, _, err := bDiffIter(newT, oldT, 0, 0)
			reads := st.distinctLoads()
			cached++
			want := bModelDiff(m0, model)
			if dir == 1 {
				want = bModelDiff(model, m0)
			}
			if err != nil || fmt.Sprint(got) != fmt.Sprint(want) {
				bViolation(t, "C06", "diffiter-wrong", "bf=%d, %d entries, 25 small updates written and read through a 64-entry node cache, direction %d: DiffIter reported %v (err %v), expected %v", bf, n, dir, got, err, want)
			}
			if reads > 2*d+2 {
				bViolation(t, "C15", "diffiter-cost-small-cache", "bf=%d, %d entries, 25 small updates written and read through a 64-entry node cache, direction %d: DiffIter read %d distinct nodes from the store, D=%d nodes differ (bound 2*D+2=%d)", bf, n, dir, reads, d, 2*d+2)
			}
		}
	}
	bStat("C15.small_cache_pairs", cached)
}

func bMaxKey(m map[int]int) int {
	mx := 63
	for k := range m {
		if k > mx {
			mx = k
		}
	}
	return mx
}
