#!/bin/bash
set -e
cd "$(dirname "$0")"
export GOFLAGS=-mod=mod GOPROXY=off GOSUMDB=off GOTOOLCHAIN=local
mkdir -p bin
(cd govc && go build -o ../bin/govc .)
echo "govc built"
